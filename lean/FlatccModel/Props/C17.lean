import FlatccModel.Ident
import FlatccModel.VerifierSound
/-!
# C17 — identifiers and type hashes are computed, stored and checked consistently
-/
namespace Flatcc.Ident
open Flatcc.Verifier

theorem fnvAppend_append (h : Nat) (a b : List Nat) : fnvAppend h (a ++ b) = fnvAppend (fnvAppend h a) b := by
  unfold fnvAppend; rw [List.foldl_append]

theorem scope_fold (scope : List (List Nat)) (name : List Nat) (h : Nat) :
    fnvAppend (scope.foldl (fun h comp => fnvAppend (fnvAppend h comp) [46]) h) name = fnvAppend h (dotted scope name) := by
  induction scope generalizing h with
  | nil => rfl
  | cons comp rest ih =>
    simp only [List.foldl, dotted, List.foldr]
    rw [ih]
    unfold dotted
    rw [fnvAppend_append, fnvAppend_append]

/-- the hash the compiler generates for a type equals the runtime hash of its dot-qualified name
(FNV-1a-32, zero mapped to the hash of the empty string), for every scope and name -/
theorem C17_compile_eq_runtime (scope : List (List Nat)) (name : List Nat) :
    compileTypeHash scope name = typeHashFromName (dotted scope name) := by
  unfold compileTypeHash typeHashFromName
  simp only [scope_fold]

/-- the hash is FNV-1a-32 of the name: one step per byte (xor, multiply by the prime, mod 2^32) -/
theorem C17_fnv_step (h b : Nat) (rest : List Nat) :
    fnvAppend h (b :: rest) = fnvAppend (((h ^^^ (b % 256)) * 16777619) % 4294967296) rest := rfl

theorem C17_hash_nonzero (name : List Nat) : typeHashFromName name ≠ 0 := by
  unfold typeHashFromName
  simp only []
  split
  · unfold fnvOffset; decide
  · assumption

/-- the type identifier is the hash in little-endian bytes, and converts back to it -/
theorem C17_identifier_roundtrip (h : Nat) (hh : h < 4294967296) :
    hashFromIdentifier (identifierFromHash h) = h := by
  unfold hashFromIdentifier identifierFromHash
  simp only []
  omega

/-- file identifiers without zero bytes: the string conversion gives the same word as the 4 bytes -/
theorem C17_string_eq_identifier (b0 b1 b2 b3 : Nat) (h0 : b0 ≠ 0) (h1 : b1 ≠ 0) (h2 : b2 ≠ 0) (rest : List Nat) :
    hashFromString ([b0, b1, b2, b3] ++ rest) = hashFromIdentifier [b0, b1, b2, b3] := by
  unfold hashFromString hashFromIdentifier
  simp [h0, h1, h2]

/-- root access accepts iff the requested identifier is null, converts to zero, or equals the stored one -/
theorem C17_has_identifier_iff (stored : Nat) (fid : Option (List Nat)) :
    hasIdentifier stored fid = true ↔
      fid = none ∨ (∃ s, fid = some s ∧ (hashFromString (s ++ [0, 0, 0, 0]) = 0 ∨ stored = hashFromString (s ++ [0, 0, 0, 0]))) := by
  unfold hasIdentifier
  cases fid with
  | none => simp
  | some s => simp

theorem C17_has_type_hash_iff (stored thash : Nat) :
    hasTypeHash stored thash = true ↔ thash = 0 ∨ stored = thash := by
  unfold hasTypeHash; simp

/-- every verify variant's header check: accepted ⇒ the size conditions hold and the requested
identifier is zero or equals the word stored at offset 4 (plain) … -/
theorem C17_header_accept_sound (c : Ctx) (idHash : Nat) (h : verifyHeader c idHash = .ok ()) :
    c.A % 4 = 0 ∧ c.n ≤ 4294967287 ∧ 8 ≤ c.n ∧ (idHash = 0 ∨ r32 c 4 = idHash) := by
  unfold verifyHeader at h
  obtain ⟨_, h1, h⟩ := bind_ok h
  obtain ⟨_, h2, h⟩ := bind_ok h
  obtain ⟨_, h3, h⟩ := bind_ok h
  have g1 := guard_ok h1; have g2 := guard_ok h2; have g3 := guard_ok h3
  simp only [decide_eq_true_eq] at g1 g2 g3
  refine ⟨g1, by omega, g3, ?_⟩
  by_cases hz : idHash = 0
  · left; exact hz
  · right
    simp only [hz, if_false] at h
    obtain ⟨id, hr, h⟩ := bind_ok h
    obtain ⟨_, hid⟩ := rd32_ok hr
    have g := guard_ok h
    simp only [decide_eq_true_eq] at g
    rw [← hid]; exact g

/-- … conversely every buffer meeting them is accepted: acceptance is exactly "null/zero or equal" -/
theorem C17_header_accept_complete (c : Ctx) (idHash : Nat)
    (h1 : c.A % 4 = 0) (h2 : c.n ≤ 4294967287) (h3 : 8 ≤ c.n) (h4 : idHash = 0 ∨ r32 c 4 = idHash) :
    verifyHeader c idHash = .ok () := by
  unfold verifyHeader guard'
  have e2 : c.n ≤ 4294967295 - 8 := by omega
  have e3 : c.n ≥ 8 := h3
  simp only [h1, e2, e3, decide_true, if_true, bind, Except.bind]
  by_cases hz : idHash = 0
  · simp [hz, pure, Except.pure]
  · have hr : r32 c 4 = idHash := by rcases h4 with h | h; exact absurd h hz; exact h
    have : 4 + 4 ≤ c.n := by omega
    simp only [hz, if_false, rd32, this, if_true]
    unfold r32 at hr
    simp [hr]

/-- … and at offset 8 in size-prefixed buffers, with the verified size taken from the prefix -/
theorem C17_header_with_size_sound (c : Ctx) (idHash n' : Nat)
    (h : verifyHeaderWithSize c idHash = .ok n') :
    n' = r32 c 0 + 4 ∧ n' ≤ c.n ∧ (idHash = 0 ∨ r32 c 8 = idHash) := by
  unfold verifyHeaderWithSize at h
  obtain ⟨_, h1, h⟩ := bind_ok h
  obtain ⟨_, h2, h⟩ := bind_ok h
  obtain ⟨_, h3, h⟩ := bind_ok h
  obtain ⟨sz, h4, h⟩ := bind_ok h
  obtain ⟨_, h5, h⟩ := bind_ok h
  obtain ⟨_, h6, h⟩ := bind_ok h
  have g3 := guard_ok h3; have g5 := guard_ok h5
  simp only [decide_eq_true_eq] at g3 g5
  obtain ⟨_, hsz⟩ := rd32_ok h4
  have e := pure_ok h
  refine ⟨by omega, by omega, ?_⟩
  by_cases hz : idHash = 0
  · left; exact hz
  · right
    simp only [hz, if_false] at h6
    obtain ⟨id, hr, h6⟩ := bind_ok h6
    obtain ⟨_, hid⟩ := rd32_ok hr
    have g := guard_ok h6
    simp only [decide_eq_true_eq] at g
    rw [← hid]; exact g

/-- the builder stores the identifier iff it is non-null and not all zero -/
theorem C17_stored_iff (fid : Option (List Nat)) :
    storedIdentifier fid ≠ none ↔ ∃ s, fid = some s ∧ hashFromIdentifier s ≠ 0 := by
  unfold storedIdentifier
  cases fid with
  | none => simp
  | some s => by_cases h : hashFromIdentifier s = 0 <;> simp [h]

example : typeHashFromName [77, 111, 110, 115, 116, 101, 114] = 0x611f5e31 := by decide   -- "Monster"

end Flatcc.Ident
