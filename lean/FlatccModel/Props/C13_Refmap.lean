import FlatccModel.RefmapFault
/-!
# C13 — the reference map under allocation failure

`stepF hash m op allocOk` is one public call of refmap.c with the allocator's answer for requests made
during the call (`false` = FLATCC_CALLOC returns NULL).  Any hash function, any history, any schedule of
refusals.
-/
namespace Flatcc.Refmap

/-- a resize that cannot get its table reports -1 and leaves the map exactly as it was -/
theorem C13_refmap_resize_refused (hash : Nat → Nat) (m : Map) (n : Nat)
    (h : (stepF hash m (.rsz n) false).2 ≠ 0) :
    (stepF hash m (.rsz n) false).1 = m ∧ (stepF hash m (.rsz n) false).2 = -1 := by
  have e : stepF hash m (.rsz n) false = resizeF hash m n := by unfold stepF; simp
  rw [e] at h ⊢
  exact resizeF_atomic hash m n h

/-- an insert whose growth step cannot get its table returns not-found and stores nothing;
an insert that needs no allocation is served as usual -/
theorem C13_refmap_insert_refused (hash : Nat → Nat) (m : Map) (s : Nat) (r : Int) :
    (effective m (.ins s r) false = .fnd s ∧ stepF hash m (.ins s r) false = (m, 0)) ∨
    (effective m (.ins s r) false = .ins s r ∧ stepF hash m (.ins s r) false = step hash m (.ins s r)) := by
  have e : stepF hash m (.ins s r) false = insertF hash m s r := by unfold stepF; simp
  rw [e]
  have hcase : effective m (.ins s r) false = .fnd s ∨ effective m (.ins s r) false = .ins s r := by
    unfold effective; simp only [Bool.false_eq_true, if_false]; split
    · exact Or.inl rfl
    · exact Or.inr rfl
  rcases hcase with hc | hc
  · exact Or.inl ⟨hc, insertF_refused hash m s r hc⟩
  · exact Or.inr ⟨hc, insertF_served hash m s r hc⟩

/-- for EVERY history of calls and EVERY schedule of allocator refusals the map stays in a good state
(an empty slot exists, so probes terminate; count = occupied slots) and answers exactly as the abstract
map of the operations that took effect -/
theorem C13_refmap_history (hash : Nat → Nat) (ops : List (Op × Bool)) :
    Good hash (runF hash ops).1 ∧ ∀ k, find' hash (runF hash ops).1 k = spec (runF hash ops).2 k :=
  runF_spec hash ops

/-- with an allocator that always answers, `runF` is the fault-free run of C18 -/
theorem C13_refmap_no_fault_is_C18 (hash : Nat → Nat) (m : Map) (op : Op) :
    stepF hash m op true = step hash m op ∧ effective m op true = op := by
  constructor
  · unfold stepF; simp
  · unfold effective; simp

/-- non-vacuity: a map with 5 keys in the embedded 8-bucket table needs the allocator to take the 6th (so a refusal is
reachable), and the initial map does not (its first table is the embedded one) -/
example : needsAlloc { count := 5, rm := { buckets := 8, table := #[] } } 10 = true := by decide
example : needsAlloc Map.init 0 = false := by decide

end Flatcc.Refmap
