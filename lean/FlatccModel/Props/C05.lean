import FlatccModel.Json
import FlatccModel.Props.C19
/-!
# C05 — JSON print then parse preserves content (model-level theorems)

Strings: for EVERY byte string (embedded NUL, quotes, backslashes, control characters, invalid UTF-8) the parser's
string scanner applied to the printer's output returns exactly the original bytes and stops right behind the closing
quote. Numbers: the print/scan exactness theorems of C19 (`Props/C19.lean`) are the scalar part of this property.
The table/union/vector level is decided by execution on generated code (tools/props/c05.py).
-/
namespace Flatcc.Json

theorem decode_escape_special (c : Nat) (h : c < 32 ∨ c = 34 ∨ c = 92) (rest : List Nat) :
    ∃ tail, escapeByte c = 92 :: tail ∧ decodeEscape (tail ++ rest) = some ([c], rest) := by
  rcases h with h | h | h
  · repeat (rcases c with _ | c; · exact ⟨_, rfl, rfl⟩)
    omega
  · subst h; exact ⟨_, rfl, rfl⟩
  · subst h; exact ⟨_, rfl, rfl⟩

theorem printByte_length_pos (c : Nat) : 1 ≤ (printByte c).length := by
  unfold printByte escapeByte
  split
  · simp
  · repeat (first | (split; simp) | simp)

theorem parseBody_printed (s : List Nat) (rest acc : List Nat) (fuel : Nat)
    (hf : (s.flatMap printByte).length + 1 ≤ fuel) :
    parseBody fuel (s.flatMap printByte ++ 34 :: rest) acc = some (acc ++ s, rest) := by
  induction s generalizing acc fuel with
  | nil =>
    cases fuel with
    | zero => omega
    | succ f => simp [parseBody]
  | cons c cs ih =>
    simp only [List.flatMap_cons, List.length_append] at hf
    have hp := printByte_length_pos c
    cases fuel with
    | zero => omega
    | succ f =>
      simp only [List.flatMap_cons, List.append_assoc]
      by_cases hc : c ≥ 32 ∧ c ≠ 34 ∧ c ≠ 92
      · have : printByte c = [c] := by simp [printByte, hc]
        rw [this] at hf ⊢
        simp only [List.cons_append, List.nil_append, parseBody]
        rw [if_neg hc.2.1, if_neg (by omega), if_neg hc.2.2]
        rw [ih (acc ++ [c]) f (by simp only [List.length_cons, List.length_nil] at hf; omega)]
        simp
      · have hsp : c < 32 ∨ c = 34 ∨ c = 92 := by omega
        obtain ⟨tail, he, hd⟩ := decode_escape_special c hsp (cs.flatMap printByte ++ 34 :: rest)
        have : printByte c = 92 :: tail := by simp only [printByte, if_neg hc]; exact he
        rw [this] at hf ⊢
        simp only [List.cons_append, parseBody]
        rw [if_neg (by omega), if_neg (by omega)]
        simp only [if_true, hd]
        rw [ih (acc ++ [c]) f (by simp only [List.length_cons] at hf; omega)]
        simp

end Flatcc.Json

namespace Flatcc.Props.C05
open Flatcc.Json

/-- **String round trip.** Whatever follows the string in the text. -/
theorem C05_string_roundtrip (s rest : List Nat) : parseString (printString s ++ rest) = some (s, rest) := by
  unfold parseString printString
  simp only [List.cons_append, List.append_assoc]
  have := parseBody_printed s rest [] ((s.flatMap printByte ++ 34 :: rest).length + 1) (by simp)
  simpa using this

/-- the printed string contains no raw control character, quote or backslash between its quotes except as part of an
escape sequence it starts with a backslash: every byte below 0x20 is written as an escape (strict JSON requires it) -/
theorem C05_no_raw_control : ∀ c, c < 32 → ∀ b ∈ printByte c, 32 ≤ b := by decide

/-- non-vacuity: a string with NUL, quote, backslash, DEL and a raw high byte -/
example : parseString (printString [0, 34, 92, 127, 200, 10] ++ [44]) = some ([0, 34, 92, 127, 200, 10], [44]) := by decide

end Flatcc.Props.C05
