import FlatccModel.Json
import FlatccModel.Base64Proofs
import FlatccModel.Props.C19
/-!
# C05 — JSON print then parse preserves content (model-level theorems)

Strings: for EVERY byte string (embedded NUL, quotes, backslashes, control characters, invalid UTF-8) the parser's
string scanner applied to the printer's output returns exactly the original bytes and stops right behind the closing
quote. Numbers: the print/scan exactness theorems of C19 (`Props/C19.lean`) are the scalar part of this property.
The table/union/vector level is decided by execution on generated code (tools/props/c05.py).
-/
namespace Flatcc.Json

theorem decode_escape_special (c : Nat) (h : c < 32 ∨ c = 34 ∨ c = 92) (rest : List Nat) :
    ∃ tail, escapeByte c = 92 :: tail ∧ decodeEscape (tail ++ rest) = some ([c], rest) := by
  rcases h with h | h | h
  · repeat (rcases c with _ | c; · exact ⟨_, rfl, rfl⟩)
    omega
  · subst h; exact ⟨_, rfl, rfl⟩
  · subst h; exact ⟨_, rfl, rfl⟩

theorem printByte_length_pos (c : Nat) : 1 ≤ (printByte c).length := by
  unfold printByte escapeByte
  split
  · simp
  · repeat (first | (split; simp) | simp)

theorem parseBody_printed (s : List Nat) (rest acc : List Nat) (fuel : Nat)
    (hf : (s.flatMap printByte).length + 1 ≤ fuel) :
    parseBody fuel (s.flatMap printByte ++ 34 :: rest) acc = some (acc ++ s, rest) := by
  induction s generalizing acc fuel with
  | nil =>
    cases fuel with
    | zero => omega
    | succ f => simp [parseBody]
  | cons c cs ih =>
    simp only [List.flatMap_cons, List.length_append] at hf
    have hp := printByte_length_pos c
    cases fuel with
    | zero => omega
    | succ f =>
      simp only [List.flatMap_cons, List.append_assoc]
      by_cases hc : c ≥ 32 ∧ c ≠ 34 ∧ c ≠ 92
      · have : printByte c = [c] := by simp [printByte, hc]
        rw [this] at hf ⊢
        simp only [List.cons_append, List.nil_append, parseBody]
        rw [if_neg hc.2.1, if_neg (by omega), if_neg hc.2.2]
        rw [ih (acc ++ [c]) f (by simp only [List.length_cons, List.length_nil] at hf; omega)]
        simp
      · have hsp : c < 32 ∨ c = 34 ∨ c = 92 := by omega
        obtain ⟨tail, he, hd⟩ := decode_escape_special c hsp (cs.flatMap printByte ++ 34 :: rest)
        have : printByte c = 92 :: tail := by simp only [printByte, if_neg hc]; exact he
        rw [this] at hf ⊢
        simp only [List.cons_append, parseBody]
        rw [if_neg (by omega), if_neg (by omega)]
        simp only [if_true, hd]
        rw [ih (acc ++ [c]) f (by simp only [List.length_cons] at hf; omega)]
        simp

end Flatcc.Json

namespace Flatcc.Props.C05
open Flatcc.Json

/-- **String round trip.** Whatever follows the string in the text. -/
theorem C05_string_roundtrip (s rest : List Nat) : parseString (printString s ++ rest) = some (s, rest) := by
  unfold parseString printString
  simp only [List.cons_append, List.append_assoc]
  have := parseBody_printed s rest [] ((s.flatMap printByte ++ 34 :: rest).length + 1) (by simp)
  simpa using this

/-- the printed string contains no raw control character, quote or backslash between its quotes except as part of an
escape sequence it starts with a backslash: every byte below 0x20 is written as an escape (strict JSON requires it) -/
theorem C05_no_raw_control : ∀ c, c < 32 → ∀ b ∈ printByte c, 32 ≤ b := by decide

/-- non-vacuity: a string with NUL, quote, backslash, DEL and a raw high byte -/
example : parseString (printString [0, 34, 92, 127, 200, 10] ++ [44]) = some ([0, 34, 92, 127, 200, 10], [44]) := by decide

end Flatcc.Props.C05

/-! ## base64 fields (`[ubyte] (base64)` / `(base64url)`)

`Base64.lean` models `base64_encode` / `base64_decode` of `include/flatcc/portable/pbase64.h` (tables verbatim), the
printer's chunk loop (`print_uint8_vector_base64_object`: chunks of a multiple of 3 source bytes between flushes) and the
parser's field scanner (`flatcc_json_parser_build_uint8_vector_base64`). -/
namespace Flatcc.Props.C05
open Flatcc.Base64

/-- **Base64 fields round-trip.** For EVERY byte vector, either alphabet and ANY sequence of flush points in the printer,
the parser applied to the printed field (followed by any continuation) returns exactly the bytes and stops behind the
closing quote. -/
theorem C05_base64_roundtrip (rooms : List Nat) (s rest : List Nat) (urlsafe : Bool) (hs : ∀ b ∈ s, b < 256) :
    parseBase64Field (printBase64Field rooms s urlsafe ++ rest) urlsafe = some (s, rest) :=
  parse_print_field rooms s rest urlsafe hs

/-- the printed base64 text needs no escaping: never a quote, a backslash or a control character (strict JSON) -/
theorem C05_base64_text_is_plain (s : List Nat) (mode : Nat) (hs : ∀ b ∈ s, b < 256) :
    ∀ b ∈ encode s mode, b ≠ 34 ∧ b ≠ 92 ∧ 32 ≤ b ∧ b < 127 :=
  encode_no_escape s mode hs

/-- the four printer modes against the parser's two decode modes, with the exact sizes the C code computes:
encoded length = `base64_encoded_size`, the decode is exact, and `base64_decoded_size` (what the parser reserves) suffices -/
theorem C05_base64_all_modes (s : List Nat) (mode : Nat) (hs : ∀ b ∈ s, b < 256)
    (hmode : mode = 0 ∨ mode = 1 ∨ mode = 128 ∨ mode = 129) :
    (encode s mode).length = encodedSize s.length mode
    ∧ decode (encode s mode) (mode % 2) = ⟨0, s, (encode s mode).length⟩
    ∧ decodeLim (decodedSize (encode s mode).length) (encode s mode) (mode % 2) = ⟨0, s, (encode s mode).length⟩
    ∧ s.length ≤ decodedSize (encode s mode).length
    ∧ (∀ b ∈ encode s mode, b ≠ 34 ∧ b ≠ 92 ∧ 32 ≤ b ∧ b < 127) :=
  roundtrip_all_modes s mode hs hmode

/-- the printer's chunks are whole 3-byte groups and never exceed the data (so chunked output = one-call output) -/
theorem C05_base64_chunks (room dataLen mode : Nat) (h : (room + 3) / 4 * 4 < encodedSize dataLen mode) :
    (room + 3) / 4 * 4 * 3 / 4 % 3 = 0 ∧ (room + 3) / 4 * 4 * 3 / 4 ≤ dataLen :=
  print_chunk_in_bounds room dataLen mode h

example : parseBase64Field (printBase64Field [5, 9] [0, 255, 34, 92, 10, 7, 200] false ++ [44]) false = some ([0, 255, 34, 92, 10, 7, 200], [44]) := by decide

end Flatcc.Props.C05
