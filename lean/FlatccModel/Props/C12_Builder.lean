import FlatccModel.Builder
/-!
# C12 — the emit calls of the builder tile one contiguous range

Every `create_*` / `end_table` / `end_buffer` / `embed_buffer` of the builder model reaches the emitter only
through `emitFront` / `emitBack`, which record `(offset, length)` of the call (what a recording
`flatcc_builder_emit_fun` sees).  `replay` re-reads such a record from the oldest call: a call is a *front*
call when its offset is `start − length < 0` (the range grows strictly downward) and a *back* call when its
offset is the current `end ≥ 0` and it is not empty (the range grows strictly upward), starting from `(0, 0)`.
The theorem: for EVERY sequence of builder operations (`BOp`, any arguments, nesting included) the record
replays, and it replays to exactly the builder's `[emit_start, emit_end)`.

The pieces (`iov`) of a call are not part of this model: that each call has 1..FLATCC_IOV_COUNT_MAX non-empty
pieces summing to the stated length is checked by the recording emitter of the C12 run.
-/
namespace Flatcc.Builder

/-- one recorded call against the range `[st, en)` reached so far -/
def stepOK (se : Int × Int) (e : Int × Nat) : Option (Int × Int) :=
  if e.1 = se.1 - (e.2 : Int) ∧ e.1 < se.1 then some (e.1, se.2)        -- front: strictly downward
  else if e.1 = se.2 ∧ 0 < e.2 then some (se.1, se.2 + (e.2 : Int))     -- back: strictly upward from the end
  else none

/-- replay a record (newest call first, as `BS.emits` keeps it) from the empty range -/
def replay : List (Int × Nat) → Option (Int × Int)
  | [] => some (0, 0)
  | e :: rest => (replay rest).bind (fun se => stepOK se e)

/-- the record describes exactly the range the builder believes it has emitted -/
def Tiled (s : BS) : Prop := replay s.emits = some (s.emitStart, s.emitEnd)

theorem tiled_init : Tiled initBS := by
  unfold Tiled initBS replay BS.emitStart BS.emitEnd; rfl

theorem emitFront_tiled (s : BS) (bytes : List Nat) (h : Tiled s) (hne : bytes ≠ []) : Tiled (emitFront s bytes).1 := by
  unfold Tiled at h ⊢
  unfold emitFront
  simp only [replay, h, Option.bind_some]
  have hl : 0 < bytes.length := List.length_pos_iff.mpr hne
  unfold stepOK BS.emitStart BS.emitEnd
  simp only [List.length_append]
  have c : (-((bytes.length + s.front.length : Nat) : Int) = -(s.front.length : Int) - (bytes.length : Int)) ∧
      -((bytes.length + s.front.length : Nat) : Int) < -(s.front.length : Int) := by
    constructor <;> omega
  rw [if_pos c]

theorem emitBack_tiled (s : BS) (bytes : List Nat) (h : Tiled s) (hne : bytes ≠ []) : Tiled (emitBack s bytes).1 := by
  unfold Tiled at h ⊢
  unfold emitBack
  simp only [replay, h, Option.bind_some]
  have hl : 0 < bytes.length := List.length_pos_iff.mpr hne
  unfold stepOK BS.emitStart BS.emitEnd
  simp only [List.length_append]
  have c1 : ¬ ((s.back.length : Int) = -(s.front.length : Int) - (bytes.length : Int) ∧ (s.back.length : Int) < -(s.front.length : Int)) := by
    intro hc; omega
  rw [if_neg c1, if_pos ⟨trivial, hl⟩]
  congr 1

/-- changes of the builder's settings do not touch the stream or its record -/
theorem tiled_congr {s s' : BS} (h : Tiled s) (e1 : s'.emits = s.emits) (e2 : s'.front = s.front) (e3 : s'.back = s.back) : Tiled s' := by
  unfold Tiled BS.emitStart BS.emitEnd at h ⊢
  rw [e1, e2, e3]; exact h

theorem setMinAlign_tiled (s : BS) (a : Nat) (h : Tiled s) : Tiled (setMinAlign s a) := by
  unfold setMinAlign; split
  · exact tiled_congr h rfl rfl rfl
  · exact h

theorem le32_ne (x : Nat) (r : List Nat) : le32 x ++ r ≠ [] := by unfold le32; simp

theorem createString_tiled (s : BS) (d : List Nat) (h : Tiled s) : Tiled (createString s d).1 := by
  unfold createString
  exact emitFront_tiled _ _ h (by rw [List.append_assoc]; exact le32_ne _ _)

theorem createVector_tiled (s : BS) (d : List Nat) (c a : Nat) (h : Tiled s) : Tiled (createVector s d c a).1 := by
  unfold createVector
  exact emitFront_tiled _ _ (setMinAlign_tiled _ _ h) (by rw [List.append_assoc]; exact le32_ne _ _)

theorem createOffsetVector_tiled (s : BS) (refs : List Int) (h : Tiled s) : Tiled (createOffsetVector s refs).1 := by
  unfold createOffsetVector
  exact emitFront_tiled _ _ (setMinAlign_tiled _ _ h) (by rw [List.append_assoc]; exact le32_ne _ _)

theorem createStruct_tiled (s : BS) (d : List Nat) (a : Nat) (h : Tiled s) (hd : d ≠ []) : Tiled (createStruct s d a).1 := by
  unfold createStruct
  exact emitFront_tiled _ _ (setMinAlign_tiled _ _ h) (by intro e; exact hd (List.append_eq_nil_iff.mp e).1)

theorem vtableBytes_ne (t : TableLayout) : vtableBytes t ≠ [] := by
  unfold vtableBytes le16; simp

theorem createVtable_tiled (s : BS) (vt : List Nat) (h : Tiled s) (hv : vt ≠ []) : Tiled (createVtable s vt).1 := by
  unfold createVtable
  split
  · exact emitBack_tiled _ _ h hv
  · exact emitFront_tiled _ _ h (by intro e; exact hv (List.append_eq_nil_iff.mp e).1)

theorem createCachedVtable_tiled (s : BS) (vt : List Nat) (hash : Nat) (h : Tiled s) (hv : vt ≠ []) :
    Tiled (createCachedVtable s vt hash).1 := by
  unfold createCachedVtable
  split
  · exact h
  · exact tiled_congr (createVtable_tiled s vt h hv) rfl rfl rfl

theorem createTable_tiled (s : BS) (t : TableLayout) (r : Int) (h : Tiled s) : Tiled (createTable s t r).1 := by
  unfold createTable
  exact emitFront_tiled _ _ (setMinAlign_tiled _ _ h) (by rw [List.append_assoc]; exact le32_ne _ _)

theorem endTable_tiled (s : BS) (fields : List (Nat × FieldVal)) (h : Tiled s) : Tiled (endTable s fields).1 := by
  unfold endTable
  exact createTable_tiled _ _ _ (createCachedVtable_tiled _ _ _ h (vtableBytes_ne _))

theorem embedBuffer_tiled (s : BS) (d : List Nat) (a b : Nat) (w : Bool) (h : Tiled s) : Tiled (embedBuffer s d a b w).1 := by
  unfold embedBuffer
  exact emitFront_tiled _ _ (setMinAlign_tiled _ _ h) (by rw [List.append_assoc]; exact le32_ne _ _)

theorem bufPrep_tiled (s : BS) (a : Nat) (n : Bool) (h : Tiled s) : Tiled (bufPrep s a n) := by
  unfold bufPrep
  apply setMinAlign_tiled
  split
  · exact h
  · show Tiled (if backPad s a = 0 then s else (emitBack s (zeros (backPad s a))).1)
    split
    · exact h
    · next hz => exact emitBack_tiled _ _ h (by unfold zeros; intro e; exact hz (by simpa using e))

theorem bufHeader_ne (s : BS) (ident : List Nat) (r : Int) (a : Nat) (n : Bool) : bufHeader s ident r a n ≠ [] := by
  unfold bufHeader
  intro e
  have e1 := (List.append_eq_nil_iff.mp e).1
  have e2 := (List.append_eq_nil_iff.mp e1).1
  have e3 := (List.append_eq_nil_iff.mp e2).2
  unfold le32 at e3; simp at e3

theorem createBuffer_tiled (s : BS) (ident : List Nat) (r : Int) (a : Nat) (n : Bool) (h : Tiled s) :
    Tiled (createBuffer s ident r a n).1 := by
  unfold createBuffer
  exact emitFront_tiled _ _ (bufPrep_tiled _ _ _ h) (bufHeader_ne _ _ _ _ _)

theorem startBuffer_tiled (s : BS) (b : Nat) (w : Bool) (h : Tiled s) : Tiled (startBuffer s b w) := by
  unfold startBuffer; exact tiled_congr h rfl rfl rfl

theorem endBuffer_tiled (saved s : BS) (ident : List Nat) (r : Int) (h : Tiled s) : Tiled (endBuffer saved s ident r).1 := by
  unfold endBuffer
  exact tiled_congr (createBuffer_tiled _ _ _ _ _ (setMinAlign_tiled _ _ h)) rfl rfl rfl

/-- the operations of the builder's low-level interface, with arbitrary arguments -/
inductive BOp
  | str (data : List Nat)
  | vec (data : List Nat) (count align : Nat)
  | ovec (refs : List Int)
  | struct (data : List Nat) (align : Nat)
  | table (fields : List (Nat × FieldVal))
  | embed (data : List Nat) (align blockAlign : Nat) (withSize : Bool)
  | startBuf (blockAlign : Nat) (withSize : Bool)
  | endBuf (ident : List Nat) (rootRef : Int)
  | clustering (on : Bool)

/-- the builder and its stack of buffer frames (the enclosing buffers' saved settings) -/
def stepOp (st : BS × List BS) : BOp → BS × List BS
  | .str d => ((createString st.1 d).1, st.2)
  | .vec d c a => ((createVector st.1 d c a).1, st.2)
  | .ovec r => ((createOffsetVector st.1 r).1, st.2)
  | .struct d a => (if d = [] then st.1 else (createStruct st.1 d a).1, st.2)     -- an empty struct image is refused by emit_front
  | .table f => ((endTable st.1 f).1, st.2)
  | .embed d a b w => ((embedBuffer st.1 d a b w).1, st.2)
  | .startBuf b w => (startBuffer st.1 b w, st.1 :: st.2)
  | .endBuf id r => match st.2 with
    | [] => st
    | saved :: rest => ((endBuffer saved st.1 id r).1, rest)
  | .clustering on => ({ st.1 with clustering := on }, st.2)

def runOps (ops : List BOp) : BS × List BS := ops.foldl stepOp (initBS, [])

theorem stepOp_tiled (st : BS × List BS) (op : BOp) (h : Tiled st.1) : Tiled (stepOp st op).1 := by
  cases op with
  | str d => show Tiled (createString st.1 d).1; exact createString_tiled _ _ h
  | vec d c a => show Tiled (createVector st.1 d c a).1; exact createVector_tiled _ _ _ _ h
  | ovec r => show Tiled (createOffsetVector st.1 r).1; exact createOffsetVector_tiled _ _ h
  | struct d a =>
    show Tiled (if d = [] then st.1 else (createStruct st.1 d a).1)
    split
    · exact h
    · next hd => exact createStruct_tiled _ _ _ h hd
  | table f => show Tiled (endTable st.1 f).1; exact endTable_tiled _ _ h
  | embed d a b w => show Tiled (embedBuffer st.1 d a b w).1; exact embedBuffer_tiled _ _ _ _ _ h
  | startBuf b w => show Tiled (startBuffer st.1 b w); exact startBuffer_tiled _ _ _ h
  | endBuf id r =>
    show Tiled (match st.2 with | [] => st | saved :: rest => ((endBuffer saved st.1 id r).1, rest)).1
    split
    · exact h
    · exact endBuffer_tiled _ _ _ _ h
  | clustering on => show Tiled { st.1 with clustering := on }; exact tiled_congr h rfl rfl rfl

/-- C12 (builder side): for EVERY history of builder operations the recorded emit calls describe one contiguous range that
starts at zero, grows strictly downward at the front and strictly upward at the back, and is exactly `[emit_start, emit_end)` -/
theorem C12_builder_emits_tile (ops : List BOp) : Tiled (runOps ops).1 := by
  unfold runOps
  have gen : ∀ (l : List BOp) (st : BS × List BS), Tiled st.1 → Tiled (l.foldl stepOp st).1 := by
    intro l
    induction l with
    | nil => intro st h; exact h
    | cons op l ih => intro st h; rw [List.foldl_cons]; exact ih _ (stepOp_tiled st op h)
  exact gen ops (initBS, []) tiled_init

/-- what `Tiled` says about two consecutive calls, spelled out: a recorded call either starts exactly `length` below the
previous start (front) or exactly at the previous end (back) -/
theorem C12_replay_step (e : Int × Nat) (rest : List (Int × Nat)) (se : Int × Int) (h : replay (e :: rest) = some se) :
    ∃ prev, replay rest = some prev ∧
      ((e.1 = prev.1 - (e.2 : Int) ∧ e.1 < prev.1 ∧ se = (e.1, prev.2)) ∨
       (e.1 = prev.2 ∧ 0 < e.2 ∧ se = (prev.1, prev.2 + (e.2 : Int)))) := by
  unfold replay at h
  cases hr : replay rest with
  | none => rw [hr] at h; simp at h
  | some prev =>
    rw [hr] at h
    simp only [Option.bind_some] at h
    refine ⟨prev, rfl, ?_⟩
    unfold stepOK at h
    split at h
    · next c => left; injection h with h; exact ⟨c.1, c.2, h.symm⟩
    · split at h
      · next c => right; injection h with h; exact ⟨c.1, c.2, h.symm⟩
      · cases h

/-- non-vacuity: a string, a table referring to it, and the buffer header, on a fresh builder with vtable clustering: three front calls (string, table, header) and two back calls (vtable, end padding) -/
example : (runOps [.startBuf 0 false, .str [104, 105], .table [(0, .off (-8))], .endBuf [] (-20)]).1.emits.length = 5 := by decide

end Flatcc.Builder
