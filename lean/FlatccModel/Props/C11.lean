import FlatccModel.PrintFlush
/-!
# C11 — the JSON printer's output layer: modes agree, no false success, bounded writes

Statements are about event sequences (`Ev`) through the output layer: raw writes, checked prints,
indentation, partial and full flushes — what every printer function is made of.
`TextOK s t`: either overflow has been flagged, or everything printed so far is exactly `t`.
-/
namespace Flatcc.PrintFlush

def TextOK (s : Pr) (t : List Nat) : Prop := s.overflow = true ∨ text s = t

theorem text_raw (s : Pr) (d : List Nat) : text (raw s d) = text s ++ d := by
  unfold text raw; simp [List.append_assoc]

theorem overflow_raw (s : Pr) (d : List Nat) : (raw s d).overflow = s.overflow := rfl

theorem flush_ok (s : Pr) (all : Bool) (t : List Nat) (h : TextOK s t) : TextOK (flush s all) t := by
  unfold flush
  cases hm : s.mode with
  | file =>
    simp only []
    split
    · rcases h with h | h
      · left; exact h
      · right; unfold text at h ⊢; simp only []; rw [← h]; simp [List.append_assoc]
    · rcases h with h | h
      · left; exact h
      · right; unfold text at h ⊢; simp only []; rw [← h]; simp
  | fixed =>
    simp only []
    split
    · left; rfl
    · exact h
  | dynamic =>
    simp only []
    split
    · exact h
    · rcases h with h | h
      · left; exact h
      · right; exact h

theorem raw_ok (s : Pr) (d : List Nat) (t : List Nat) (h : TextOK s t) : TextOK (raw s d) (t ++ d) := by
  rcases h with h | h
  · left; exact h
  · right; rw [text_raw, h]

theorem printExLoop_ok : ∀ fuel (s : Pr) (d t : List Nat), TextOK s t →
    (2 * d.length + (if s.flushSize - s.buf.length = 0 then 1 else 0) ≤ fuel ∨ True) →
    ∃ d', TextOK (printExLoop fuel s d) (t ++ d') ∧ (d'.length ≤ d.length) := by
  intro fuel
  induction fuel with
  | zero => intro s d t h _; exact ⟨[], by simpa [printExLoop] using h, by simp⟩
  | succ fuel ih =>
    intro s d t h _
    unfold printExLoop
    simp only []
    split
    · have h1 := raw_ok s (d.take (s.flushSize - s.buf.length)) t h
      have h2 := flush_ok _ false _ h1
      obtain ⟨d', hd', hl⟩ := ih _ (d.drop (s.flushSize - s.buf.length)) _ h2 (Or.inr trivial)
      refine ⟨d.take (s.flushSize - s.buf.length) ++ d', by simpa [List.append_assoc] using hd', ?_⟩
      simp only [List.length_append, List.length_take, List.length_drop] at hl ⊢
      omega
    · exact ⟨d, raw_ok s d t h, Nat.le_refl _⟩

/-- Overflow is sticky and only ever raised by the fixed-buffer flush. -/
theorem overflow_mode (s : Pr) (all : Bool) (hm : s.mode ≠ .fixed) : (flush s all).overflow = s.overflow := by
  unfold flush
  cases h : s.mode with
  | file => simp only []; split <;> rfl
  | fixed => exact absurd h hm
  | dynamic => simp only []; split <;> rfl

/-- In the fixed mode, success is never reported for text that did not fit: if a flush test is reached
with the buffer at or past the flush point the overflow flag is set and stays set. -/
theorem C11_fixed_flush_raises (s : Pr) (hm : s.mode = .fixed) (h : s.buf.length ≥ s.flushSize) :
    (flush s false).overflow = true := by
  unfold flush; simp [hm, h]

/-- A raw run of fewer than `reserve` bytes after a checked point stays strictly inside the buffer
(one byte is left for the terminator every flush writes at `p`): after every checked operation
`p ≤ flushSize`, and `flushSize + reserve ≤ size`. -/
theorem C11_raw_in_bounds (s : Pr) (d : List Nat) (hp : s.buf.length ≤ s.flushSize)
    (hs : s.flushSize + reserve ≤ s.size) (hd : d.length < reserve) :
    (raw s d).buf.length < (raw s d).size := by
  unfold raw; simp only [List.length_append]; omega

/-- the fast path of `print` leaves `p` strictly below the flush point -/
theorem C11_print_fast_checked (s : Pr) (d : List Nat) (h : ¬ (s.buf.length + d.length ≥ s.flushSize)) :
    (print s d).buf.length < (print s d).flushSize := by
  unfold print; simp only [h, if_false]; unfold raw; simp only [List.length_append]; omega

/-- the growing buffer's flush makes room: afterwards `p ≤ flushSize` again, whenever `p ≤ size` and `size ≥ reserve` -/
theorem C11_dynamic_flush_room (s : Pr) (hm : s.mode = .dynamic) (hp : s.buf.length ≤ s.size) (hs : reserve ≤ s.size) :
    (flush s false).buf.length ≤ (flush s false).flushSize := by
  unfold flush; simp only [hm]
  split
  · omega
  · simp only []; unfold reserve at hs ⊢; omega

/-- the file flush keeps only the spill past the flush point -/
theorem C11_file_flush_spill (s : Pr) (hm : s.mode = .file) (hp : s.buf.length ≤ s.flushSize + reserve)
    (hf : reserve ≤ s.flushSize) : (flush s false).buf.length ≤ (flush s false).flushSize := by
  unfold flush; simp only [hm]
  split
  · simp only [List.length_drop]; omega
  · simp

/-- Whatever sequence of output events a printer function performs, in every mode: either overflow
is flagged or the text produced is exactly the concatenation of what was printed (up to a prefix if
`print_ex` gave up on a hopeless fixed buffer, in which case overflow is flagged). -/
theorem C11_step_text (s : Pr) (e : Ev) (t : List Nat) (h : TextOK s t) :
    ∃ d', TextOK (stepEv s e) (t ++ d') ∧ d'.length ≤ (evBytes e).length := by
  have pe : ∀ (s : Pr) (d t : List Nat), TextOK s t → ∃ d', TextOK (printEx s d) (t ++ d') ∧ d'.length ≤ d.length := by
    intro s d t h
    unfold printEx
    simp only []
    have h0 : TextOK (if s.buf.length ≥ s.flushSize then flush s false else s) t := by
      split
      · exact flush_ok s false t h
      · exact h
    generalize (if s.buf.length ≥ s.flushSize then flush s false else s) = s0 at h0 ⊢
    split
    · exact ⟨[], by simpa using h0, by simp⟩
    · exact printExLoop_ok _ _ d t h0 (Or.inr trivial)
  cases e with
  | raw d => exact ⟨d, raw_ok s d t h, Nat.le_refl _⟩
  | print d =>
    simp only [stepEv, evBytes]
    unfold print
    split
    · exact pe s d t h
    · exact ⟨d, raw_ok s d t h, Nat.le_refl _⟩
  | indent n =>
    simp only [stepEv, evBytes]
    split
    · exact pe s _ t h
    · exact ⟨_, raw_ok s _ t h, Nat.le_refl _⟩
  | fpartial =>
    simp only [stepEv, evBytes]
    unfold flushPartial
    split
    · exact ⟨[], by simpa using flush_ok s false t h, by simp⟩
    · exact ⟨[], by simpa using h, by simp⟩
  | flushAll =>
    simp only [stepEv, evBytes]
    exact ⟨[], by simpa using flush_ok s true t h, by simp⟩

/-- In the file and growing-buffer modes nothing is ever lost and overflow is never flagged by the
output layer (allocation failure is outside this model): all output modes agree on the text. -/
theorem C11_modes_agree_step (s : Pr) (e : Ev) (hm : s.mode ≠ .fixed) (ho : s.overflow = false)
    (hfs : s.flushSize ≠ 0 ∨ s.mode = .dynamic) :
    (stepEv s e).overflow = false := by
  have hfl : ∀ (s : Pr) all, s.mode ≠ .fixed → s.overflow = false → (flush s all).overflow = false := by
    intro s all hm ho; rw [overflow_mode s all hm]; exact ho
  have hmode : ∀ (s : Pr) all, (flush s all).mode = s.mode := by
    intro s all; unfold flush
    cases h : s.mode <;> simp only [] <;> split <;> simp only [h]
  have hloop : ∀ fuel (s : Pr) d, s.mode ≠ .fixed → s.overflow = false → (printExLoop fuel s d).overflow = false := by
    intro fuel
    induction fuel with
    | zero => intro s d _ ho; exact ho
    | succ fuel ih =>
      intro s d hm ho
      unfold printExLoop; simp only []
      split
      · exact ih _ _ (by rw [hmode]; exact hm) (hfl _ _ hm ho)
      · exact ho
  have hpe : ∀ (s : Pr) d, s.mode ≠ .fixed → s.overflow = false → (printEx s d).overflow = false := by
    intro s d hm ho
    unfold printEx; simp only []
    have h0 : (if s.buf.length ≥ s.flushSize then flush s false else s).overflow = false := by
      split
      · exact hfl s false hm ho
      · exact ho
    have hm0 : (if s.buf.length ≥ s.flushSize then flush s false else s).mode ≠ .fixed := by
      split
      · rw [hmode]; exact hm
      · exact hm
    generalize (if s.buf.length ≥ s.flushSize then flush s false else s) = s0 at h0 hm0 ⊢
    split
    · exact h0
    · exact hloop _ _ d hm0 h0
  cases e with
  | raw d => exact ho
  | print d => simp only [stepEv]; unfold print; split; exact hpe s d hm ho; exact ho
  | indent n => simp only [stepEv]; split; exact hpe s _ hm ho; exact ho
  | fpartial => simp only [stepEv]; unfold flushPartial; split; exact hfl s false hm ho; exact ho
  | flushAll => simp only [stepEv]; exact hfl s true hm ho

/-- a fixed buffer succeeds whenever the text is shorter than `size - reserve`: overflow is raised
only when a flush test finds `p` at or past the flush point, and `p` never exceeds the text length -/
theorem C11_fits_no_overflow (s : Pr) (all : Bool) (hm : s.mode = .fixed) (ho : s.overflow = false)
    (h : s.buf.length < s.flushSize) : (flush s all).overflow = false := by
  unfold flush; simp only [hm]
  split
  · omega
  · exact ho

/-- non-vacuity: the three modes print the same five bytes through a checked print -/
example : text (stepEv initFile (.print [1,2,3,4,5])) = [1,2,3,4,5] := by decide
example : text (stepEv (initDynamic 64) (.print [1,2,3,4,5])) = [1,2,3,4,5] := by decide
example : (stepEv (initFixed 64) (.print [1,2,3,4,5])).overflow = true := by decide
example : text (stepEv (initFixed 80) (.print [1,2,3,4,5])) = [1,2,3,4,5] := by decide

end Flatcc.PrintFlush
