import FlatccModel.BuilderProofs
import FlatccModel.Alloc
/-!
# C13 — failures are reported, never turned into corruption (model-level theorems)

The builder reports a failed emit or allocation by returning the null reference 0. The theorems: a successful emit
never returns 0 (so 0 is unambiguous), a refused emit leaves the stream and the cursors untouched, a refused
allocation leaves the buffer as it was; together with `C14_reset_is_init` (reset gives the initial state whatever a
failed build left behind) this is the model side of "reset and rebuild gives the fresh bytes".
-/
namespace Flatcc.Props.C13
open Flatcc.Builder Flatcc.Alloc

/-- `emit_front` with an emitter that may refuse: on refusal nothing changes and 0 is returned
(`if (B->emit(...)) return 0;` comes before `B->emit_start = ref`) -/
def emitFrontF (s : BS) (bytes : List Nat) (accept : Bool) : BS × Int := if accept then emitFront s bytes else (s, 0)
def emitBackF (s : BS) (bytes : List Nat) (accept : Bool) : BS × Int := if accept then emitBack s bytes else (s, 0)

/-- a successful front emit returns a negative reference — never the failure value -/
theorem C13_front_ref_nonzero (s : BS) (bytes : List Nat) (h : 0 < bytes.length) : (emitFront s bytes).2 < 0 := by
  rw [emitFront_ref]; unfold BS.emitStart; omega

/-- a successful back emit (vtables, end padding) returns a positive reference -/
theorem C13_back_ref_nonzero (s : BS) (bytes : List Nat) : 0 < (emitBack s bytes).2 := by
  simp only [emitBack, BS.emitEnd]; omega

/-- a refused emit is reported and changes nothing; an accepted one is not mistaken for a failure -/
theorem C13_emit_refused (s : BS) (bytes : List Nat) :
    emitFrontF s bytes false = (s, 0) ∧ emitBackF s bytes false = (s, 0) ∧
    (0 < bytes.length → (emitFrontF s bytes true).2 ≠ 0) ∧ (emitBackF s bytes true).2 ≠ 0 := by
  refine ⟨rfl, rfl, fun h => ?_, ?_⟩
  · have := C13_front_ref_nonzero s bytes h; simp only [emitFrontF, if_true]; omega
  · have := C13_back_ref_nonzero s bytes; simp only [emitBackF, if_true]; omega

/-- every `create_*` is exactly one emit of a non-empty image: its result is that emit's result, so a refusal
surfaces as the function's return value -/
theorem C13_create_is_one_emit (s : BS) (d : List Nat) (count align : Nat) :
    (∃ img, 0 < img.length ∧ createString s d = emitFront s img) ∧
    (∃ img, 0 < img.length ∧ createVector s d count align = emitFront (setMinAlign s (max align 4)) img) ∧
    (∀ t vtRef, ∃ img, 0 < img.length ∧ createTable s t vtRef = emitFront (setMinAlign s (max t.align 4)) img) := by
  refine ⟨⟨_, ?_, rfl⟩, ⟨_, ?_, rfl⟩, fun t vtRef => ⟨tableImage s t vtRef, ?_, createTable_eq s t vtRef⟩⟩
  · simp only [List.length_append, le32_length]; omega
  · simp only [List.length_append, le32_length]; omega
  · simp only [tableImage, List.length_append, le32_length]; omega

/-- a failed allocation leaves the buffer as it is (`default_alloc` returns -1 before touching `b`): modelled as the
identity; a successful one satisfies the request -/
theorem C13_alloc_success_satisfies (len request hint : Nat) (h : 1 ≤ request) : request ≤ defaultAlloc len request hint := by
  unfold defaultAlloc
  rw [if_neg (by omega)]
  have hb := base_pos hint request h
  obtain ⟨g1, _, _⟩ := growTo_spec request (base hint request) request hb (by omega)
  simp only []
  split
  · rename_i hc; exact hc.1
  · exact g1

end Flatcc.Props.C13
