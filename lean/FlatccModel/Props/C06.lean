import FlatccModel.StructGraphProofs
/-!
# C06 — the schema compiler fails gracefully (the part that is decision logic)

Modelled and proved: the struct hierarchy analysis (`analyze_struct`: depth-first search with open/closed marks and the
nesting limit) and the verdict protocol (success exactly when no diagnostic was reported). Crash freedom, memory
release and the absence of generated output after a failed parse are decided by execution (tools/props/c06.py).
-/
namespace Flatcc.Props.C06
open Flatcc.StructGraph Flatcc.Consts

/-- **Accepted struct hierarchies are well-founded.** If the schema-level pass over any struct reference graph ends
without a diagnostic, then every struct has been closed and the closing order is topological: each struct only contains
structs closed before it — no struct contains itself, directly or indirectly, so every size is finite. -/
theorem C06_struct_hierarchy_sound (g : Graph) (h : (analyzeAll g).diags = []) :
    (∀ i, i < g.length → i ∈ (analyzeAll g).order) ∧ Topo g (analyzeAll g).order ∧ (analyzeAll g).opened = [] := by
  have := good_fold g g.length
  unfold analyzeAll at h ⊢
  exact ⟨(this.2 h).2, this.1, (this.2 h).1⟩

/-- a self-containing struct and a two-cycle are refused with the circular diagnostic (non-vacuity of the above) -/
example : (analyzeAll [[some 0]]).diags = [.circular] := by decide
example : (analyzeAll [[none, some 1], [some 0]]).diags = [.circular] := by decide
example : (analyzeAll [[some 1], [none]]).diags = [] ∧ (analyzeAll [[some 1], [none]]).order = [1, 0] := by decide

/-- **Verdict protocol.** The compiler's return value is derived from the diagnostic counter alone
(`P->failed`): success exactly when nothing was reported. -/
def verdict (diagnostics : Nat) : Bool := diagnostics == 0
theorem C06_verdict (n : Nat) : verdict n = true ↔ n = 0 := by simp [verdict]

end Flatcc.Props.C06
