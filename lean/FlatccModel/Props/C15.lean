import FlatccModel.BuilderProofs
/-!
# C15 — nested buffers are self-contained and correctly aligned (model-level theorems)
-/
namespace Flatcc.Props.C15
open Flatcc.Builder

/-- **A nested buffer starts with no reusable vtable.** `start_buffer` gives the buffer a nest id no cached vtable
carries, so the first use of every vtable shape inside it emits a new vtable (inside it, in front). -/
theorem C15_fresh_nest_id (s : BS) (ba : Nat) (ws : Bool) (h : ∀ e ∈ s.vtCache, e.nestId < s.nestCount) :
    ∀ e ∈ (startBuffer s ba ws).vtCache, e.nestId ≠ (startBuffer s ba ws).nestId := by
  intro e he
  have : e.nestId < s.nestCount := h e he
  simp only [startBuffer]
  omega

/-- the invariant is kept by `start_buffer` and by every cached-vtable call -/
theorem C15_inv_start (s : BS) (ba : Nat) (ws : Bool) (h : ∀ e ∈ s.vtCache, e.nestId < s.nestCount) :
    (∀ e ∈ (startBuffer s ba ws).vtCache, e.nestId < (startBuffer s ba ws).nestCount) ∧
    (startBuffer s ba ws).nestId < (startBuffer s ba ws).nestCount := by
  simp only [startBuffer]
  exact ⟨fun e he => Nat.lt_succ_of_lt (h e he), Nat.lt_succ_self _⟩

theorem C15_inv_vtable (s : BS) (vt : List Nat) (hash : Nat) (h : ∀ e ∈ s.vtCache, e.nestId < s.nestCount)
    (hn : s.nestId < s.nestCount) :
    ∀ e ∈ (createCachedVtable s vt hash).1.vtCache, e.nestId < (createCachedVtable s vt hash).1.nestCount := by
  unfold createCachedVtable
  split
  · exact h
  · have hc : (createVtable s vt).1.vtCache = s.vtCache ∧ (createVtable s vt).1.nestCount = s.nestCount := by
      unfold createVtable; split <;> exact ⟨rfl, rfl⟩
    intro e he
    simp only [List.mem_cons] at he
    rcases he with he | he
    · subst he; simpa [hc.2] using hn
    · rw [hc.1] at he; simpa [hc.2] using h e he

/-- **No vtable is shared across buffers.** The reference `create_cached_vtable` returns is either a vtable emitted by
this very call (in front when nested, so inside the nested buffer) or one cached by an earlier call made *in the same
buffer* (same nest id). -/
theorem C15_vtable_same_buffer (s : BS) (vt : List Nat) (hash : Nat) :
    (createCachedVtable s vt hash).2 = (createVtable s vt).2 ∧ (createCachedVtable s vt hash).1.front = (createVtable s vt).1.front ∨
    ∃ e ∈ s.vtCache, e.nestId = s.nestId ∧ e.bytes = vt ∧ (createCachedVtable s vt hash).2 = e.ref ∧
      (createCachedVtable s vt hash).1 = s := by
  unfold createCachedVtable
  cases hf : s.vtCache.find? (fun e => e.bytes == vt && e.nestId == s.nestId && e.bucket == vtBucket hash) with
  | some e =>
    right
    have hm := List.mem_of_find?_eq_some hf
    have hp := List.find?_some hf
    simp only [Bool.and_eq_true, beq_iff_eq] at hp
    exact ⟨e, hm, hp.1.2, hp.1.1, rfl, rfl⟩
  | none => left; exact ⟨rfl, rfl⟩

/-- in a nested buffer a newly emitted vtable lies below the buffer's end mark, i.e. inside the nested buffer -/
theorem C15_nested_vtable_inside (s : BS) (vt : List Nat) (hn : s.nestId ≠ 0) (hm : s.emitStart ≤ s.bufferMark) (hv : 0 < vt.length) :
    (createVtable s vt).2 - 1 < s.bufferMark ∧ (createVtable s vt).1.emitStart = (createVtable s vt).2 - 1 := by
  unfold createVtable
  rw [if_neg (by intro h; exact hn h.1)]
  simp only []
  rw [emitFront_ref, emitFront_start]
  simp only [List.length_append, zeros_length]
  constructor
  · push_cast; omega
  · omega

/-- **Nested header.** For a nested buffer without the size flag: the content after the vector length (`base`) is aligned
to the buffer's alignment, the vector length is exactly the distance from `base` to the buffer's end mark (everything
emitted since `start_buffer`, nothing of the parent), and the root offset leads to the root. -/
theorem C15_nested_header (s : BS) (ident : List Nat) (rootRef : Int) (a : Nat) (hws : s.withSize = false)
    (hroot : s.emitStart ≤ rootRef) (hmark : s.emitStart ≤ s.bufferMark)
    (hr2 : rootRef - (createBuffer s ident rootRef a true).2 < 4294967296)
    (hm2 : s.bufferMark - (createBuffer s ident rootRef a true).2 < 4294967296) :
    let r := createBuffer s ident rootRef a true
    let base := r.2 + 4
    base % (bufAlign s a : Int) = 0 ∧ bufAlign s a ≤ r.1.minAlign ∧
    base + rd32 r.1.front 0 = s.bufferMark ∧ base + rd32 r.1.front 4 = rootRef := by
  intro r base
  obtain ⟨h1, h2, h3, h4⟩ := bufPrep_facts s (bufAlign s a) true
  have hal : 0 < bufAlign s a := by unfold bufAlign; omega
  obtain ⟨s1, hs1⟩ : ∃ s1, s1 = bufPrep s (bufAlign s a) true := ⟨_, rfl⟩
  rw [← hs1] at h1 h2 h3 h4
  have hmk : s1.bufferMark = s.bufferMark := by
    rw [hs1]; unfold bufPrep setMinAlign; simp only [if_true]; split <;> rfl
  obtain ⟨idOut, hid⟩ : ∃ idOut, idOut = (if ident.length = 4 ∧ ident ≠ [0, 0, 0, 0] then ident else []) := ⟨_, rfl⟩
  obtain ⟨A, hA⟩ : ∃ A, A = bufAlign s a := ⟨_, rfl⟩
  obtain ⟨pad, hpad⟩ : ∃ pad, pad = frontPad s1 (4 + idOut.length + 0) A := ⟨_, rfl⟩
  have hws1 : s1.withSize = false := by rw [h2, hws]
  obtain ⟨hdr, hh⟩ : ∃ hdr, hdr = (le32 (u32 (s1.bufferMark - (s1.emitStart - ((4 + 4 + idOut.length + pad : Nat) : Int) + 4))) ++
      le32 (u32 (rootRef - (s1.emitStart - ((4 + 4 + idOut.length + pad : Nat) : Int) + 4))) ++ idOut ++ zeros pad) := ⟨_, rfl⟩
  have hr : r = emitFront s1 hdr := by
    subst hs1 hid hA hpad hh
    show createBuffer s ident rootRef a true = _
    unfold createBuffer bufHeader
    simp only [hws1, Bool.true_or, if_true, Bool.false_eq_true, if_false]
  have hspec := frontPad_spec s1 (4 + idOut.length + 0) A (by rw [hA]; exact hal)
  rw [← hpad] at hspec
  rw [← hA]
  have hmin : r.1.minAlign = s1.minAlign := by rw [hr]; rfl
  have hfront : r.1.front = hdr ++ s1.front := by rw [hr]; exact emitFront_front _ _
  have hrv : r.2 = s1.emitStart - (((4 + 4 + idOut.length + pad : Nat)) : Int) := by
    rw [hr, emitFront_ref, hh]
    simp only [List.length_append, le32_length, zeros_length]
  have hr2' : rootRef - r.2 < 4294967296 := hr2
  have hm2' : s.bufferMark - r.2 < 4294967296 := hm2
  refine ⟨?_, by rw [hmin, hA]; exact h3, ?_, ?_⟩
  · show (r.2 + 4) % (A : Int) = 0
    rw [hrv]; push_cast at hspec ⊢; rw [← hspec]; congr 1; omega
  · show r.2 + 4 + ↑(rd32 r.1.front 0) = s.bufferMark
    rw [hfront, hh, hrv] 
    rw [rd32_of_slice _ 0 (u32 (s1.bufferMark - (s1.emitStart - ((4 + 4 + idOut.length + pad : Nat) : Int) + 4))) (by simp [slice, le32]) (by unfold u32; omega)]
    rw [hrv] at hm2'
    unfold u32; rw [hmk]; push_cast at hm2' ⊢; omega
  · show r.2 + 4 + ↑(rd32 r.1.front 4) = rootRef
    rw [hfront, hh, hrv]
    rw [rd32_of_slice _ 4 (u32 (rootRef - (s1.emitStart - ((4 + 4 + idOut.length + pad : Nat) : Int) + 4))) (by simp [slice, le32]) (by unfold u32; omega)]
    rw [hrv] at hr2'
    unfold u32; push_cast at hr2' ⊢; omega

/-- **The parent reports an alignment at least that of every nested buffer** (and keeps its own). -/
theorem C15_parent_alignment (saved s : BS) (ident : List Nat) (rootRef : Int) :
    let r := endBuffer saved s ident rootRef
    saved.minAlign ≤ r.1.minAlign ∧ s.minAlign ≤ r.1.minAlign ∧ bufAlign (setMinAlign s s.blockAlign) (setMinAlign s s.blockAlign).minAlign ≤ r.1.minAlign := by
  intro r
  have hge := setMinAlign_ge s s.blockAlign
  obtain ⟨_, _, h3, _⟩ := bufPrep_facts (setMinAlign s s.blockAlign) (bufAlign (setMinAlign s s.blockAlign) (setMinAlign s s.blockAlign).minAlign) (decide (s.nestId ≠ 0))
  have hnest : (setMinAlign s s.blockAlign).nestId = s.nestId := by unfold setMinAlign; split <;> rfl
  have hr : r.1.minAlign = max (createBuffer (setMinAlign s s.blockAlign) ident rootRef (setMinAlign s s.blockAlign).minAlign (decide (s.nestId ≠ 0))).1.minAlign saved.minAlign := by
    show (endBuffer saved s ident rootRef).1.minAlign = _
    unfold endBuffer; simp only [hnest]
  have hcb : (createBuffer (setMinAlign s s.blockAlign) ident rootRef (setMinAlign s s.blockAlign).minAlign (decide (s.nestId ≠ 0))).1.minAlign
      = (bufPrep (setMinAlign s s.blockAlign) (bufAlign (setMinAlign s s.blockAlign) (setMinAlign s s.blockAlign).minAlign) (decide (s.nestId ≠ 0))).minAlign := by
    unfold createBuffer; rfl
  have hb : (setMinAlign s s.blockAlign).minAlign ≤ bufAlign (setMinAlign s s.blockAlign) (setMinAlign s s.blockAlign).minAlign := by
    unfold bufAlign; omega
  rw [hr, hcb]
  omega

end Flatcc.Props.C15
