import FlatccModel.Verifier
/-!
# C01 — the verifier finishes within the documented nesting limit

The model's table verifier carries two bounds: `ttl`, the C code's remaining nesting budget (`FLATCC_VERIFIER_MAX_LEVELS` at the
root, handed down — one budget for the whole verification, nested buffers included), and `fuel`, the structural recursion bound
of the Lean definition. `.error .fuel` is the answer "the recursion went deeper than `fuel`". The theorem: whenever `ttl ≤ fuel`
that answer never occurs — for every schema, buffer and position the recursion of an accepted *or rejected* verification is cut
by the `ttl` test of the C code before it is deeper than `ttl`. The root functions start with `ttl = 100`, `fuel = 128`.
-/
namespace Flatcc.Verifier

/-- the model's own recursion bound was not what ended the computation -/
def NF {α} (r : V α) : Prop := r ≠ .error .fuel

theorem nf_ok {α} (v : α) : NF (.ok v : V α) := by intro h; cases h
theorem nf_pure {α} (v : α) : NF (pure v : V α) := by intro h; cases h
theorem nf_guard (b : Bool) : NF (guard' b) := by unfold guard'; split <;> (intro h; cases h)
theorem nf_rd8 (c : Ctx) (i : Nat) : NF (rd8 c i) := by unfold rd8; split <;> (intro h; cases h)
theorem nf_rd16 (c : Ctx) (i : Nat) : NF (rd16 c i) := by unfold rd16; split <;> (intro h; cases h)
theorem nf_rd32 (c : Ctx) (i : Nat) : NF (rd32 c i) := by unfold rd32; split <;> (intro h; cases h)

theorem nf_bind {α β} {e : V α} {k : α → V β} (he : NF e) (hk : ∀ v, e = .ok v → NF (k v)) : NF (e >>= k) := by
  cases e with
  | error x => intro h; apply he; simpa [bind, Except.bind] using h
  | ok v => exact hk v rfl

theorem nf_of_guard_ok {b : Bool} {u : Unit} (h : guard' b = .ok u) : b = true := by
  unfold guard' at h; split at h
  · assumption
  · cases h

theorem nf_verifyStruct (c : Ctx) (e base offset size align : Nat) : NF (verifyStruct c e base offset size align) := by
  unfold verifyStruct
  exact nf_bind (nf_guard _) fun _ _ => nf_bind (nf_guard _) fun _ _ => nf_bind (nf_guard _) fun _ _ => nf_guard _

theorem nf_verifyString (c : Ctx) (base offset : Nat) : NF (verifyString c base offset) := by
  unfold verifyString
  exact nf_bind (nf_guard _) fun _ _ => nf_bind (nf_rd32 _ _) fun _ _ => nf_bind (nf_guard _) fun _ _ => nf_bind (nf_rd8 _ _) fun _ _ => nf_guard _

theorem nf_verifyVector (c : Ctx) (base offset esz align maxc : Nat) : NF (verifyVector c base offset esz align maxc) := by
  unfold verifyVector
  exact nf_bind (nf_guard _) fun _ _ => nf_bind (nf_rd32 _ _) fun _ _ => nf_bind (nf_guard _) fun _ _ => nf_bind (nf_guard _) fun _ _ =>
    nf_bind (nf_guard _) fun _ _ => nf_pure _

theorem nf_verifyStrings (c : Ctx) : ∀ cnt base, NF (verifyStrings c cnt base) := by
  intro cnt
  induction cnt with
  | zero => intro base; unfold verifyStrings; exact nf_ok _
  | succ n ih =>
    intro base; unfold verifyStrings
    exact nf_bind (nf_rd32 _ _) fun _ _ => nf_bind (nf_verifyString _ _ _) fun _ _ => ih _

theorem nf_verifyStringVector (c : Ctx) (base offset : Nat) : NF (verifyStringVector c base offset) := by
  unfold verifyStringVector
  exact nf_bind (nf_verifyVector _ _ _ _ _ _) fun _ _ => nf_verifyStrings _ _ _

theorem nf_readVtEntry (c : Ctx) (td : TD) (id : Nat) : NF (readVtEntry c td id) := by
  unfold readVtEntry; simp only []; split
  · exact nf_ok _
  · exact nf_rd16 _ _

theorem nf_verifyField (c : Ctx) (td : TD) (id : Nat) (req : Bool) (size align : Nat) : NF (verifyField c td id req size align) := by
  unfold verifyField
  refine nf_bind (nf_readVtEntry _ _ _) fun vte _ => ?_
  split
  · exact nf_guard _
  · exact nf_bind (nf_guard _) fun _ _ => nf_guard _

theorem nf_getOffsetField (c : Ctx) (td : TD) (id : Nat) (req : Bool) : NF (getOffsetField c td id req) := by
  unfold getOffsetField
  refine nf_bind (nf_readVtEntry _ _ _) fun vte _ => ?_
  split
  · exact nf_bind (nf_guard _) fun _ _ => nf_pure _
  · exact nf_bind (nf_guard _) fun _ _ => nf_bind (nf_guard _) fun _ _ => nf_pure _

theorem nf_verifyHeader (c : Ctx) (idHash : Nat) : NF (verifyHeader c idHash) := by
  unfold verifyHeader
  refine nf_bind (nf_guard _) fun _ _ => nf_bind (nf_guard _) fun _ _ => nf_bind (nf_guard _) fun _ _ => ?_
  split
  · exact nf_pure _
  · exact nf_bind (nf_rd32 _ _) fun _ _ => nf_guard _

/-- the statement for tables verified with recursion bound `fuel` -/
def TableNF (S : Schema) (fuel : Nat) : Prop :=
  ∀ (c : Ctx) base offset (ttl : Int) t, 1 ≤ fuel → ttl ≤ (fuel : Int) → NF (verifyTable S c fuel base offset ttl t)

theorem member_nf {S : Schema} {fuel : Nat} (IH : TableNF S fuel) (c : Ctx) (b o : Nat) (ttl : Int) (h1 : 1 ≤ fuel) (ht : ttl ≤ (fuel : Int))
    (m : Option Member) : NF (verifyMember S c fuel b o ttl m) := by
  cases m with
  | none => unfold verifyMember; exact nf_ok _
  | some m =>
    cases m with
    | table t => unfold verifyMember; exact IH c b o ttl t h1 ht
    | struct s a => unfold verifyMember; exact nf_verifyStruct _ _ _ _ _ _
    | string => unfold verifyMember; exact nf_verifyString _ _ _

theorem tables_nf {S : Schema} {fuel : Nat} (IH : TableNF S fuel) (c : Ctx) (ttl : Int) (t : Nat) (h1 : 1 ≤ fuel) (ht : ttl ≤ (fuel : Int)) :
    ∀ cnt base, NF (verifyTables S c fuel ttl t cnt base) := by
  intro cnt
  induction cnt with
  | zero => intro base; unfold verifyTables; exact nf_ok _
  | succ n ih =>
    intro base; unfold verifyTables
    exact nf_bind (nf_rd32 _ _) fun _ _ => nf_bind (IH c _ _ ttl t h1 ht) fun _ _ => ih _

theorem unions_nf {S : Schema} {fuel : Nat} (IH : TableNF S fuel) (c : Ctx) (ttl : Int) (u : Nat) (h1 : 1 ≤ fuel) (ht : ttl ≤ (fuel : Int)) :
    ∀ cnt tbase base, NF (verifyUnions S c fuel ttl u cnt tbase base) := by
  intro cnt
  induction cnt with
  | zero => intro tbase base; unfold verifyUnions; exact nf_ok _
  | succ n ih =>
    intro tbase base; unfold verifyUnions
    refine nf_bind (nf_rd32 _ _) fun elem _ => nf_bind (nf_rd8 _ _) fun ty _ => nf_bind ?_ fun _ _ => ih _ _
    split
    · exact nf_guard _
    · exact nf_bind (nf_guard _) fun _ _ => member_nf IH c _ _ ttl h1 ht _

theorem nf_optmatch {k : Nat → V Unit} (hk : ∀ b, NF (k b)) (r : Option Nat) :
    NF (match r with | none => (pure () : V Unit) | some b => k b) := by
  cases r with
  | none => exact nf_pure _
  | some b => exact hk b

theorem kind_nf {S : Schema} {fuel : Nat} (IHall : TableNF S fuel) (c : Ctx) (td : TD) (f : Field) (h1 : 1 ≤ fuel) (ht : td.ttl ≤ (fuel : Int)) :
    NF (verifyKind S c fuel td f) := by
  unfold verifyKind
  cases hk : f.kind with
  | scalar s a => simp only []; exact nf_verifyField _ _ _ _ _ _
  | string =>
    simp only []
    exact nf_bind (nf_getOffsetField _ _ _ _) fun r _ => nf_optmatch (fun b => nf_bind (nf_rd32 _ _) fun _ _ => nf_verifyString _ _ _) r
  | vector e a m =>
    simp only []
    exact nf_bind (nf_getOffsetField _ _ _ _) fun r _ =>
      nf_optmatch (fun b => nf_bind (nf_rd32 _ _) fun _ _ => nf_bind (nf_verifyVector _ _ _ _ _ _) fun _ _ => nf_pure _) r
  | stringVector =>
    simp only []
    exact nf_bind (nf_getOffsetField _ _ _ _) fun r _ => nf_optmatch (fun b => nf_bind (nf_rd32 _ _) fun _ _ => nf_verifyStringVector _ _ _) r
  | table t =>
    simp only []
    exact nf_bind (nf_getOffsetField _ _ _ _) fun r _ => nf_optmatch (fun b => nf_bind (nf_rd32 _ _) fun _ _ => IHall c _ _ td.ttl t h1 ht) r
  | tableVector t =>
    simp only []
    exact nf_bind (nf_getOffsetField _ _ _ _) fun r _ => nf_optmatch (fun b =>
      nf_bind (nf_rd32 _ _) fun _ _ => nf_bind (nf_guard _) fun _ _ => nf_bind (nf_verifyVector _ _ _ _ _ _) fun _ _ =>
        tables_nf IHall c (td.ttl - 1) t h1 (by omega) _ _) r
  | union u =>
    simp only []
    refine nf_bind (nf_readVtEntry _ _ _) fun vteType _ => ?_
    split
    · exact nf_bind (nf_readVtEntry _ _ _) fun _ _ => nf_bind (nf_guard _) fun _ _ => nf_guard _
    · refine nf_bind (nf_verifyField _ _ _ _ _ _) fun _ _ => nf_bind (nf_readVtEntry _ _ _) fun _ _ => nf_bind (nf_rd8 _ _) fun ty _ =>
        nf_bind (nf_guard _) fun _ _ => ?_
      split
      · exact nf_pure _
      · exact nf_bind (nf_getOffsetField _ _ _ _) fun r _ =>
          nf_optmatch (fun b => nf_bind (nf_rd32 _ _) fun _ _ => member_nf IHall c _ _ td.ttl h1 ht _) r
  | unionVector u =>
    simp only []
    refine nf_bind (nf_readVtEntry _ _ _) fun vteType _ => nf_bind ?_ fun _ _ => nf_bind (nf_getOffsetField _ _ _ _) fun rt _ => ?_
    · split
      · exact nf_bind (nf_readVtEntry _ _ _) fun _ _ => nf_bind (nf_guard _) fun _ _ => nf_guard _
      · exact nf_pure _
    · refine nf_optmatch (fun tb => nf_bind (nf_rd32 _ _) fun _ _ => nf_bind (nf_verifyVector _ _ _ _ _ _) fun count _ =>
        nf_bind (nf_getOffsetField _ _ _ _) fun r _ => nf_optmatch (fun b =>
          nf_bind (nf_rd32 _ _) fun _ _ => nf_bind (nf_guard _) fun _ _ => nf_bind (nf_verifyVector _ _ _ _ _ _) fun _ _ =>
            nf_bind (nf_guard _) fun _ _ => unions_nf IHall c (td.ttl - 1) u h1 (by omega) _ _ _) r) rt
  | nestedTable t a =>
    simp only []
    refine nf_bind (nf_getOffsetField _ _ _ _) fun r _ => nf_optmatch (fun b =>
      nf_bind (nf_rd32 _ _) fun _ _ => nf_bind (nf_verifyVector _ _ _ _ _ _) fun len _ => ?_) r
    unfold verifyNestedTable
    exact nf_bind (nf_verifyHeader _ _) fun _ _ => nf_bind (nf_rd32 _ _) fun _ _ => IHall _ _ _ td.ttl t h1 ht
  | nestedStruct s a =>
    simp only []
    exact nf_bind (nf_getOffsetField _ _ _ _) fun r _ => nf_optmatch (fun b =>
      nf_bind (nf_rd32 _ _) fun _ _ => nf_bind (nf_verifyVector _ _ _ _ _ _) fun _ _ => nf_bind (nf_verifyHeader _ _) fun _ _ =>
        nf_bind (nf_rd32 _ _) fun _ _ => nf_verifyStruct _ _ _ _ _ _) r

theorem fields_nf {S : Schema} {fuel : Nat} (IHall : TableNF S fuel) (c : Ctx) (td : TD) (h1 : 1 ≤ fuel) (ht : td.ttl ≤ (fuel : Int)) :
    ∀ fs, NF (verifyFields S c fuel td fs) := by
  intro fs
  induction fs with
  | nil => unfold verifyFields; exact nf_ok _
  | cons f fs ih => unfold verifyFields; exact nf_bind (kind_nf IHall c td f h1 ht) fun _ _ => ih

theorem table_nf (S : Schema) : ∀ fuel, TableNF S fuel := by
  intro fuel
  induction fuel with
  | zero => intro c base offset ttl t h1 _; omega
  | succ fuel ih =>
    intro c base offset ttl t _ ht
    unfold verifyTable
    refine nf_bind (nf_guard _) fun _ hg => ?_
    have hgt : ttl - 1 > 0 := by simpa using nf_of_guard_ok hg
    refine nf_bind (nf_guard _) fun _ _ => nf_bind (nf_rd32 _ _) fun so _ => nf_bind (nf_guard _) fun _ _ => nf_bind (nf_guard _) fun _ _ =>
      nf_bind (nf_guard _) fun _ _ => nf_bind (nf_rd16 _ _) fun vsize _ => nf_bind (nf_guard _) fun _ _ => nf_bind (nf_guard _) fun _ _ =>
      nf_bind (nf_rd16 _ _) fun tsize _ => nf_bind (nf_guard _) fun _ _ => ?_
    exact fields_nf ih c _ (by omega) (by simp only []; omega) _

/-- **Nesting limit.** For every schema, every byte string and every identifier request the root verifiers never run into the
model's own recursion bound: whether they accept or reject, the recursion through tables, table vectors, unions, union vectors
and nested buffers is ended by the C code's `ttl` test, i.e. it is never deeper than `FLATCC_VERIFIER_MAX_LEVELS`. -/
theorem C01_nesting_limit (S : Schema) (c : Ctx) (idHash t : Nat) : NF (verifyTableAsRoot S c idHash t) := by
  unfold verifyTableAsRoot
  exact nf_bind (nf_verifyHeader _ _) fun _ _ => nf_bind (nf_rd32 _ _) fun _ _ => table_nf S 128 _ _ _ _ _ (by omega) (by unfold maxLevels; omega)

theorem nf_verifyHeaderWithSize (c : Ctx) (idHash : Nat) : NF (verifyHeaderWithSize c idHash) := by
  unfold verifyHeaderWithSize
  refine nf_bind (nf_guard _) fun _ _ => nf_bind (nf_guard _) fun _ _ => nf_bind (nf_guard _) fun _ _ => nf_bind (nf_rd32 _ _) fun _ _ =>
    nf_bind (nf_guard _) fun _ _ => nf_bind ?_ fun _ _ => nf_pure _
  split
  · exact nf_pure _
  · exact nf_bind (nf_rd32 _ _) fun _ _ => nf_guard _

/-- the same for size-prefixed buffers -/
theorem C01_nesting_limit_with_size (S : Schema) (c : Ctx) (idHash t : Nat) : NF (verifyTableAsRootWithSize S c idHash t) := by
  unfold verifyTableAsRootWithSize
  exact nf_bind (nf_verifyHeaderWithSize _ _) fun _ _ => nf_bind (nf_rd32 _ _) fun _ _ => table_nf S 128 _ _ _ _ _ (by omega) (by unfold maxLevels; omega)

/-- a table is only looked at while budget is left: acceptance of a table at budget `ttl` needs `ttl ≥ 2`, and its fields are verified
with `ttl - 1` (`verifyTable` passes `ttl - 1` in the descriptor; vectors of tables and of unions spend one more) -/
theorem C01_budget_spent (S : Schema) (c : Ctx) (fuel base offset : Nat) (ttl : Int) (t : Nat)
    (h : verifyTable S c (fuel + 1) base offset ttl t = .ok ()) : 2 ≤ ttl := by
  unfold verifyTable at h
  cases hg : guard' (decide (ttl - 1 > 0)) with
  | error e => rw [hg] at h; simp [bind, Except.bind] at h
  | ok u => have := nf_of_guard_ok hg; simp at this; omega

/-- non-vacuity: a chain of nested buffers uses the same budget as a chain of tables — with budget 1 nothing is accepted -/
example (S : Schema) (c : Ctx) (fuel base offset t : Nat) : verifyTable S c (fuel + 1) base offset 1 t ≠ .ok () := by
  intro h; have := C01_budget_spent S c fuel base offset 1 t h; omega

end Flatcc.Verifier
