import FlatccModel.EmitterProofs
/-!
# C12 — the default emitter returns the emitted stream intact

`Em.content` is the abstract stream.  Front emits prepend, back emits append — whatever the page
size (≥ 2), however the data is split into iov pieces, across any number of page boundaries —
and copy / direct access return exactly that stream.
-/
namespace Flatcc.Emitter

theorem wf_init (page : Nat) (h : 2 ≤ page) : WFEm (Em.init page) := ⟨h, fun _ => ⟨rfl, rfl, rfl, rfl⟩⟩

theorem wf_used {s : Em} (w : WFEm s) (u : Nat) : WFEm { s with used := u } := ⟨w.page2, w.empty⟩

theorem frontLeft_used (s : Em) (u : Nat) : ({ s with used := u } : Em).frontLeft = s.frontLeft := rfl
theorem backLeft_used (s : Em) (u : Nat) : ({ s with used := u } : Em).backLeft = s.backLeft := rfl
theorem content_used (s : Em) (u : Nat) : ({ s with used := u } : Em).content = s.content := rfl

theorem flatten_length_sum (l : List (List Nat)) : l.flatten.length = (l.map List.length).sum := by
  induction l with
  | nil => rfl
  | cons a r ih => simp [ih]

theorem foldFront (pieces : List (List Nat)) : ∀ (s : Em), WFEm s →
    (pieces.foldl (fun s piece => copyFront (fuelFor s piece.length) s piece) s).content
      = pieces.reverse.flatten ++ s.content ∧
    WFEm (pieces.foldl (fun s piece => copyFront (fuelFor s piece.length) s piece) s) := by
  induction pieces with
  | nil => intro s w; exact ⟨by simp, w⟩
  | cons p r ih =>
    intro s w
    simp only [List.foldl]
    have h1 := copyFront_spec (fuelFor s p.length) s p w (by unfold fuelFor; split <;> omega)
    have h2 := ih _ h1.2.1
    refine ⟨?_, h2.2⟩
    rw [h2.1, h1.1]
    simp [List.append_assoc]

theorem foldBack (pieces : List (List Nat)) : ∀ (s : Em), WFEm s →
    (pieces.foldl (fun s piece => copyBack (fuelFor s piece.length) s piece) s).content
      = s.content ++ pieces.flatten ∧
    WFEm (pieces.foldl (fun s piece => copyBack (fuelFor s piece.length) s piece) s) := by
  induction pieces with
  | nil => intro s w; exact ⟨by simp, w⟩
  | cons p r ih =>
    intro s w
    simp only [List.foldl]
    have h1 := copyBack_spec (fuelFor s p.length) s p w (by unfold fuelFor; split <;> omega)
    have h2 := ih _ h1.2
    refine ⟨?_, h2.2⟩
    rw [h2.1, h1.1]
    simp [List.append_assoc]

/-- a front emit call prepends its pieces (in address order) to the stream -/
theorem C12_emit_front (s : Em) (w : WFEm s) (iov : List (List Nat)) :
    (emitFront s iov).content = iov.flatten ++ s.content ∧ WFEm (emitFront s iov) := by
  unfold emitFront
  simp only []
  split
  · rename_i hfit
    rw [frontLeft_used] at hfit
    rw [content_pushFront, content_used]
    refine ⟨rfl, ?_⟩
    by_cases hs : s.started = true
    · exact wf_pushFront (wf_used w (s.used + (iov.map List.length).sum)) hs iov.flatten
    · have hs' : s.started = false := by simpa using hs
      have hl : s.frontLeft = 0 := by unfold Em.frontLeft; simp [hs']
      have hz : iov.flatten = [] := by
        have := flatten_length_sum iov
        apply List.eq_nil_of_length_eq_zero; omega
      rw [hz]
      obtain ⟨e1, e2, e3, e4⟩ := w.empty hs'
      unfold pushFront
      simp only [e1, List.nil_append]
      exact ⟨w.page2, fun _ => ⟨rfl, e2, e3, e4⟩⟩
  · have := foldFront iov.reverse { s with used := s.used + (iov.map List.length).sum } (wf_used w _)
    rw [List.reverse_reverse, content_used] at this
    exact this

/-- a back emit call appends its pieces -/
theorem C12_emit_back (s : Em) (w : WFEm s) (iov : List (List Nat)) :
    (emitBack s iov).content = s.content ++ iov.flatten ∧ WFEm (emitBack s iov) := by
  unfold emitBack
  simp only []
  split
  · rename_i hfit
    rw [backLeft_used] at hfit
    rw [content_pushBack, content_used]
    refine ⟨rfl, ?_⟩
    by_cases hs : s.started = true
    · exact wf_pushBack (wf_used w (s.used + (iov.map List.length).sum)) hs iov.flatten
    · have hs' : s.started = false := by simpa using hs
      have hl : s.backLeft = 0 := by unfold Em.backLeft; simp [hs']
      have hz : iov.flatten = [] := by
        have := flatten_length_sum iov
        apply List.eq_nil_of_length_eq_zero; omega
      rw [hz]
      obtain ⟨e1, e2, e3, e4⟩ := w.empty hs'
      unfold pushBack
      simp only [e4, List.getLast?_nil, List.append_nil]
      exact ⟨w.page2, fun _ => ⟨e1, e2, e3, rfl⟩⟩
  · have := foldBack iov { s with used := s.used + (iov.map List.length).sum } (wf_used w _)
    rw [content_used] at this
    exact this

/-- one emit call of a build history -/
inductive Emit
  | front (iov : List (List Nat))
  | back (iov : List (List Nat))

def step (s : Em) : Emit → Em
  | .front iov => emitFront s iov
  | .back iov => emitBack s iov

/-- the stream described by a history, built left to right from the empty stream -/
def streamOf (ops : List Emit) : List Nat :=
  ops.foldl (fun acc op => match op with | .front iov => iov.flatten ++ acc | .back iov => acc ++ iov.flatten) []

theorem run_content (ops : List Emit) : ∀ (s : Em), WFEm s →
    (ops.foldl step s).content = ops.foldl (fun acc op => match op with | .front iov => iov.flatten ++ acc | .back iov => acc ++ iov.flatten) s.content ∧
    WFEm (ops.foldl step s) := by
  induction ops with
  | nil => intro s w; exact ⟨rfl, w⟩
  | cons op r ih =>
    intro s w
    simp only [List.foldl]
    cases op with
    | front iov =>
      have h := C12_emit_front s w iov
      have := ih _ h.2
      simp only [step]
      rw [this.1, h.1]; exact ⟨rfl, this.2⟩
    | back iov =>
      have h := C12_emit_back s w iov
      have := ih _ h.2
      simp only [step]
      rw [this.1, h.1]; exact ⟨rfl, this.2⟩

/-- For every build history (any number of calls, any piece sizes, any page size ≥ 2) the emitter holds
exactly the emitted stream in address order … -/
theorem C12_history (page : Nat) (hp : 2 ≤ page) (ops : List Emit) :
    (ops.foldl step (Em.init page)).content = streamOf ops := by
  have := run_content ops (Em.init page) (wf_init page hp)
  rw [this.1]; rfl

/-- … `copy_buffer` hands back exactly that stream (or NULL when the caller's buffer is too small / nothing was emitted) … -/
theorem C12_copy (s : Em) (size : Nat) (l : List Nat) (h : copyBuffer s size = some l) : l = s.content := by
  unfold copyBuffer at h
  split at h
  · contradiction
  · split at h
    · contradiction
    · injection h with h; exact h.symm

/-- … and so does direct access whenever it is offered (single page) -/
theorem C12_direct (s : Em) (l : List Nat) (h : directBuffer s = some l) : l = s.content := by
  unfold directBuffer at h
  split at h
  · rename_i hc
    simp only [Bool.and_eq_true, List.isEmpty_iff] at hc
    injection h with h
    unfold Em.content
    rw [hc.1.2, hc.2, ← h]; simp
  · contradiction

/-- reset leaves an empty stream -/
theorem C12_reset (s : Em) : (reset s).content = [] ∨ (s.started = false ∧ reset s = s) := by
  unfold reset
  split
  · right; rename_i h; exact ⟨by simpa using h, rfl⟩
  · left; simp [Em.content]

example : ((([Emit.front [[1, 2], [3]], Emit.back [[9]], Emit.front [[0]]]).foldl step (Em.init 4)).content) = [0, 1, 2, 3, 9] := by decide

end Flatcc.Emitter
