import FlatccModel.Props.C09
/-!
# C09 — deprecating fields

A deprecated field keeps its id but the generated verifier no longer checks it (and no accessor is generated). At the level of the
verifier's call lists the new schema `B` is the old schema `A` minus the deprecated fields: `Extends B A`.
-/
namespace Flatcc.Verifier

/-- deprecation, old to new: every buffer the old verifier accepts — in particular every buffer built with the old code, with the
fields that were later deprecated present or absent — is accepted by the new verifier, for ALL byte strings -/
theorem C09_deprecation_old_to_new {A B : Schema} (D : Extends B A) (c : Ctx) (idHash t : Nat)
    (h : verifyTableAsRoot A c idHash t = .ok ()) : verifyTableAsRoot B c idHash t = .ok () :=
  C09_new_to_old D c idHash t h

theorem C09_deprecation_old_to_new_with_size {A B : Schema} (D : Extends B A) (c : Ctx) (idHash t : Nat)
    (h : verifyTableAsRootWithSize A c idHash t = .ok ()) : verifyTableAsRootWithSize B c idHash t = .ok () :=
  C09_new_to_old_with_size D c idHash t h

/-- … and the new reader, which has no accessor for the deprecated fields, is safe on it -/
theorem C09_deprecation_new_reader_safe {A B : Schema} (D : Extends B A) {c : Ctx} {M : Nat} (hm4 : 4 ∣ M) (hmp : M ∣ 4294967296)
    (w : WF B M) (idHash t : Nat) (h : verifyTableAsRoot A c idHash t = .ok ()) :
    ∀ fuel a, a ∈ rootAcc B c fuel t → Safe c a :=
  C09_old_reader_safe D hm4 hmp w idHash t h

/-- non-vacuity: dropping the union field (ids 1, 2) from the call list while the later string field keeps id 3 -/
example : Extends { tables := [[⟨0, false, .scalar 4 4⟩, ⟨3, false, .string⟩]], unions := [[(1, .table 0)]] }
                  { tables := [[⟨0, false, .scalar 4 4⟩, ⟨2, false, .union 0⟩, ⟨3, false, .string⟩]], unions := [[(1, .table 0)]] } := by
  refine ⟨?_, ?_⟩
  · intro t f hf
    match t with
    | 0 => simp [Schema.table] at hf ⊢; rcases hf with rfl | rfl <;> simp
    | t+1 => simp [Schema.table] at hf
  · intro u ty m h
    exact h

end Flatcc.Verifier
