import FlatccModel.RefmapFull
/-!
# C18 — the reference map is a map (refmap.c)

`Inv hash s` is the representation invariant of the open-addressing table (size, at least one
empty slot, no duplicate keys, every occupied slot reachable from its home slot without crossing
an empty slot).  Theorems hold for an arbitrary hash function and table size.
-/
namespace Flatcc.Refmap

/-- a stored address is found, with the reference stored in its slot -/
theorem C18_find_present (hash : Nat → Nat) (s : RM) (I : Inv hash s) (t : Nat) (ht : t < s.buckets)
    (hocc : srcAt s t ≠ 0) : find hash s (srcAt s t) = refAt s t :=
  find_present hash s I t ht hocc

/-- an address that was never stored yields not-found (0); the probe terminates because an empty slot exists -/
theorem C18_find_absent (hash : Nat → Nat) (s : RM) (I : Inv hash s) (src : Nat)
    (habs : ∀ t, t < s.buckets → srcAt s t ≠ src) : find hash s src = 0 :=
  find_absent hash s I src habs

/-- inserting a new address keeps the invariant, makes it findable with the given reference, and
leaves every other stored (address, reference) pair in place -/
theorem C18_insert_new_partial (hash : Nat → Nat) (s : RM) (I : Inv hash s) (src : Nat) (ref : Int) (hsrc : src ≠ 0)
    (habs : ∀ t, t < s.buckets → srcAt s t ≠ src)
    (hroom : ∃ e1 e2, e1 < s.buckets ∧ e2 < s.buckets ∧ e1 ≠ e2 ∧ srcAt s e1 = 0 ∧ srcAt s e2 = 0) :
    Inv hash (insertCore hash s src ref) ∧
    find hash (insertCore hash s src ref) src = ref ∧
    (∀ t, t < s.buckets → srcAt s t ≠ 0 →
        srcAt (insertCore hash s src ref) t = srcAt s t ∧ refAt (insertCore hash s src ref) t = refAt s t) :=
  insert_new hash s I src ref hsrc habs hroom

/-- non-vacuity: a concrete non-empty table satisfies what the theorems need and behaves as stated -/
example : (step murmur (step murmur (step murmur Map.init (.ins 1000 7)).1 (.ins 2000 9)).1 (.fnd 1000)).2 = 7 := by decide
/-- the invariant is satisfiable: the freshly allocated 8-bucket table has it, for every hash function -/
def empty8 : RM := { buckets := 8, table := Array.replicate 8 (0, 0) }

theorem empty8_src (t : Nat) : srcAt empty8 t = 0 := by
  unfold srcAt empty8
  by_cases h : t < 8
  · rw [getElem!_pos _ t (by simpa using h)]; simp
  · rw [getElem!_neg _ t (by simpa using h)]; rfl

theorem C18_inv_satisfiable (hash : Nat → Nat) : Inv hash empty8 := by
  refine ⟨by simp [empty8], by simp [empty8], ⟨0, by simp [empty8], empty8_src 0⟩, ?_, ?_⟩
  · intro j1 j2 _ _ h; exact absurd (empty8_src j1) h
  · intro t i _ h; exact absurd (empty8_src t) h

/-! ## the full statement: every history of public calls behaves like the abstract map `spec` -/

/-- **C18**: for every hash function and every history, lookup in the model is the abstract map. -/
theorem C18_map (hash : Nat → Nat) (ops : List Op) (k : Nat) :
    find' hash (run hash ops) k = spec ops.reverse k := by
  have := (run_spec hash ops.reverse).2 k
  rw [List.reverse_reverse] at this
  exact this

/-- `flatcc_refmap_insert` returns the reference it was given. -/
theorem C18_insert_returns_ref (hash : Nat → Nat) (m : Map) (s : Nat) (r : Int) : (insert hash m s r).2 = r := by
  unfold insert; split <;> rfl

/-- the rehash loop inside `resize` never itself exceeds the load factor -/
theorem C18_no_nested_resize (hash : Nat → Nat) (ops : List Op) : (run hash ops).nested = false := by
  have := (run_spec hash ops.reverse).1.1
  rw [List.reverse_reverse] at this
  exact this

/-- every reachable state satisfies the invariant (exported for other properties) -/
theorem C18_reachable_good (hash : Nat → Nat) (ops : List Op) : Good hash (run hash ops) := by
  have := (run_spec hash ops.reverse).1
  rw [List.reverse_reverse] at this
  exact this

/-- the probe loops of `find`/`insert` terminate at an empty slot: a reachable map with a table has one -/
theorem C18_empty_slot (hash : Nat → Nat) (ops : List Op) :
    (run hash ops).rm.buckets = 0 ∨ ∃ e, e < (run hash ops).rm.buckets ∧ srcAt (run hash ops).rm e = 0 := by
  rcases (C18_reachable_good hash ops).2 with ⟨h, _, _⟩ | hT
  · exact Or.inl h
  · exact Or.inr hT.inv.empty

/-- every value returned by a public call in a history is the one `spec` predicts:
`find` returns the abstract content, `insert` returns its argument, the others return 0 -/
theorem C18_step_result (hash : Nat → Nat) (ops : List Op) (op : Op) :
    (step hash (run hash ops) op).2 =
      match op with
      | .ins _ r => r
      | .fnd s => spec ops.reverse s
      | _ => 0 := by
  cases op with
  | ins s r => exact C18_insert_returns_ref hash _ s r
  | fnd s => exact C18_map hash ops s
  | rsz n => rfl
  | rst => rfl
  | clr => rfl

/-! ## non-vacuity: a concrete history (two growths, update in place, explicit resize, reset, clear) -/

def demoOps : List Op :=
  [.ins 8 1, .ins 16 2, .ins 24 3, .ins 32 4, .ins 40 5, .ins 48 6, .ins 16 (-7), .fnd 16,
   .ins 0 9, .ins 56 8, .ins 64 9, .ins 72 10, .ins 80 11, .ins 88 12, .ins 96 13, .rsz 100,
   .ins 24 33, .rsz 0, .rst, .ins 8 (-1), .ins 5 55, .clr, .ins 7 77]

/-- a 20-call history for a deliberately bad hash (all keys collide into 3 home slots) -/
def demoOps2 : List Op :=
  [.ins 8 1, .ins 16 2, .ins 24 3, .ins 32 4, .ins 40 5, .ins 48 6, .ins 16 (-7), .fnd 16,
   .ins 0 9, .ins 56 8, .rsz 20, .ins 24 33, .rsz 0, .fnd 3, .rst, .ins 8 (-1), .ins 5 55, .fnd 5, .clr, .ins 7 77]

set_option maxRecDepth 10000 in
example : [0, 5, 7, 8, 16, 24, 56, 9].all (fun k =>
    find' (fun x => x % 3) (run (fun x => x % 3) (demoOps2.take 14)) k == spec (demoOps2.take 14).reverse k) = true := by
  decide

set_option maxRecDepth 10000 in
example : [0, 5, 7, 8, 16, 24, 56, 9].all (fun k =>
    find' (fun x => x % 3) (run (fun x => x % 3) demoOps2) k == spec demoOps2.reverse k) = true := by decide

set_option maxRecDepth 10000 in
example : spec (demoOps2.take 14).reverse 16 = -7 ∧ spec (demoOps2.take 14).reverse 24 = 33 ∧
    spec (demoOps2.take 14).reverse 0 = 0 ∧ spec demoOps2.reverse 7 = 77 ∧ spec demoOps2.reverse 8 = 0 := by decide

/-- the real hash: 18 calls (two growths 8 → 16 → 64, explicit resize to 256 and back to 32), 12 live keys;
evaluated by the kernel (`decide +kernel`, no extra axioms) because of the 64-bit multiplications -/
example : (List.range 100).all (fun k =>
    find' murmur (run murmur (demoOps.take 18)) k == spec (demoOps.take 18).reverse k) = true
    ∧ (run murmur (demoOps.take 18)).count = 12 ∧ (run murmur (demoOps.take 18)).rm.buckets = 32
    ∧ (run murmur (demoOps.take 17)).rm.buckets = 256 := by decide +kernel

end Flatcc.Refmap
