import FlatccModel.Refmap
/-!
# C18 — the reference map is a map (refmap.c)

`Inv hash s` is the representation invariant of the open-addressing table (size, at least one
empty slot, no duplicate keys, every occupied slot reachable from its home slot without crossing
an empty slot).  Theorems hold for an arbitrary hash function and table size.
-/
namespace Flatcc.Refmap

/-- a stored address is found, with the reference stored in its slot -/
theorem C18_find_present (hash : Nat → Nat) (s : RM) (I : Inv hash s) (t : Nat) (ht : t < s.buckets)
    (hocc : srcAt s t ≠ 0) : find hash s (srcAt s t) = refAt s t :=
  find_present hash s I t ht hocc

/-- an address that was never stored yields not-found (0); the probe terminates because an empty slot exists -/
theorem C18_find_absent (hash : Nat → Nat) (s : RM) (I : Inv hash s) (src : Nat)
    (habs : ∀ t, t < s.buckets → srcAt s t ≠ src) : find hash s src = 0 :=
  find_absent hash s I src habs

/-- inserting a new address keeps the invariant, makes it findable with the given reference, and
leaves every other stored (address, reference) pair in place -/
theorem C18_insert_new_partial (hash : Nat → Nat) (s : RM) (I : Inv hash s) (src : Nat) (ref : Int) (hsrc : src ≠ 0)
    (habs : ∀ t, t < s.buckets → srcAt s t ≠ src)
    (hroom : ∃ e1 e2, e1 < s.buckets ∧ e2 < s.buckets ∧ e1 ≠ e2 ∧ srcAt s e1 = 0 ∧ srcAt s e2 = 0) :
    Inv hash (insertCore hash s src ref) ∧
    find hash (insertCore hash s src ref) src = ref ∧
    (∀ t, t < s.buckets → srcAt s t ≠ 0 →
        srcAt (insertCore hash s src ref) t = srcAt s t ∧ refAt (insertCore hash s src ref) t = refAt s t) :=
  insert_new hash s I src ref hsrc habs hroom

/-- non-vacuity: a concrete non-empty table satisfies what the theorems need and behaves as stated -/
example : (step murmur (step murmur (step murmur Map.init (.ins 1000 7)).1 (.ins 2000 9)).1 (.fnd 1000)).2 = 7 := by decide
/-- the invariant is satisfiable: the freshly allocated 8-bucket table has it, for every hash function -/
def empty8 : RM := { buckets := 8, table := Array.replicate 8 (0, 0) }

theorem empty8_src (t : Nat) : srcAt empty8 t = 0 := by
  unfold srcAt empty8
  by_cases h : t < 8
  · rw [getElem!_pos _ t (by simpa using h)]; simp
  · rw [getElem!_neg _ t (by simpa using h)]; rfl

theorem C18_inv_satisfiable (hash : Nat → Nat) : Inv hash empty8 := by
  refine ⟨by simp [empty8], by simp [empty8], ⟨0, by simp [empty8], empty8_src 0⟩, ?_, ?_⟩
  · intro j1 j2 _ _ h; exact absurd (empty8_src j1) h
  · intro t i _ h; exact absurd (empty8_src t) h

end Flatcc.Refmap
