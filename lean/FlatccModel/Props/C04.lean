import FlatccModel.Json
/-!
# C04 — the JSON parser on any text (model-level theorems for the string scanner)

`parseBody` models `flatcc_json_parser_string_part` + `string_escape` in the loop of `build_string`. The theorems hold
for EVERY input byte list: the scanner is total (the fuel `length + 1` is never what makes it fail), consumes a prefix
of the input (what it returns as the rest is a suffix of what it was given — nothing behind the end is looked at), and
an escape is only accepted when all its bytes lie inside the input.
-/
namespace Flatcc.Props.C04
open Flatcc.Json

/-- an accepted escape consumed at least one byte and its rest is a suffix of its input -/
theorem decodeEscape_suffix (r : List Nat) (bytes r' : List Nat) (h : decodeEscape r = some (bytes, r')) :
    ∃ pre, pre ≠ [] ∧ r = pre ++ r' := by
  unfold decodeEscape at h
  split at h
  · split at h <;> simp at h
    obtain ⟨_, h2⟩ := h; subst h2; exact ⟨[120, _, _], by simp, rfl⟩
  · split at h
    · simp at h
    · split at h
      · split at h
        · split at h
          · split at h
            · simp at h; obtain ⟨_, h2⟩ := h; subst h2; exact ⟨[117, _, _, _, _, 92, 117, _, _, _, _], by simp, rfl⟩
            · simp at h; obtain ⟨_, h2⟩ := h; subst h2; exact ⟨[117, _, _, _, _], by simp, rfl⟩
          · simp at h; obtain ⟨_, h2⟩ := h; subst h2; exact ⟨[117, _, _, _, _], by simp, rfl⟩
        · simp at h; obtain ⟨_, h2⟩ := h; subst h2; exact ⟨[117, _, _, _, _], by simp, rfl⟩
      · simp at h; obtain ⟨_, h2⟩ := h; subst h2; exact ⟨[117, _, _, _, _], by simp, rfl⟩
  all_goals (first | (simp at h; obtain ⟨_, h2⟩ := h; subst h2; exact ⟨[_], by simp, rfl⟩) | simp at h)

/-- **The string scanner consumes a prefix of its input.** Whatever it returns as remaining input is a proper suffix of
what it was given: it never yields (nor needed to look at) anything behind the given bytes. -/
theorem C04_string_consumes_prefix (fuel : Nat) (input acc : List Nat) (out rest : List Nat)
    (h : parseBody fuel input acc = some (out, rest)) : ∃ pre, pre ≠ [] ∧ input = pre ++ rest := by
  induction fuel generalizing input acc with
  | zero => simp [parseBody] at h
  | succ f ih =>
    cases input with
    | nil => simp [parseBody] at h
    | cons c r =>
      simp only [parseBody] at h
      split at h
      · simp at h; obtain ⟨_, h2⟩ := h; subst h2; exact ⟨[c], by simp, rfl⟩
      · split at h
        · simp at h
        · split at h
          · split at h
            · rename_i bytes r' hd
              obtain ⟨p1, _, e1⟩ := decodeEscape_suffix r bytes r' hd
              obtain ⟨p2, _, e2⟩ := ih r' _ h
              exact ⟨c :: (p1 ++ p2), by simp, by rw [e1, e2]; simp⟩
            · simp at h
          · obtain ⟨p2, _, e2⟩ := ih r _ h
            exact ⟨c :: p2, by simp, by rw [e2]; rfl⟩

/-- **Totality.** More fuel than `length + 1` changes nothing: the loop ends because every round consumes input. -/
theorem C04_string_fuel_enough (input acc : List Nat) (extra : Nat) :
    parseBody (input.length + 1 + extra) input acc = parseBody (input.length + 1) input acc := by
  induction h : input.length using Nat.strongRecOn generalizing input acc extra with
  | ind n ih =>
    cases input with
    | nil =>
      subst h
      have : ([] : List Nat).length + 1 + extra = extra + 1 := by simp; omega
      rw [this]; simp [parseBody]
    | cons c r =>
      subst h
      have e1 : (c :: r).length + 1 + extra = (r.length + 1 + extra) + 1 := by simp; omega
      have e2 : (c :: r).length + 1 = (r.length + 1) + 1 := by simp
      rw [e1, e2]
      simp only [parseBody]
      split
      · rfl
      · split
        · rfl
        · split
          · cases hd : decodeEscape r with
            | none => rfl
            | some p =>
              obtain ⟨bytes, r'⟩ := p
              obtain ⟨pre, hne, he⟩ := decodeEscape_suffix r bytes r' hd
              have hl : r'.length < r.length := by
                rw [he, List.length_append]; have : 0 < pre.length := by cases pre with | nil => exact absurd rfl hne | cons _ _ => simp
                omega
              simp only []
              have a := ih r'.length (by simp; omega) r' (acc ++ bytes) (r.length - r'.length + extra) rfl
              have b := ih r'.length (by simp; omega) r' (acc ++ bytes) (r.length - r'.length) rfl
              have f1 : r'.length + 1 + (r.length - r'.length + extra) = r.length + 1 + extra := by omega
              have f2 : r'.length + 1 + (r.length - r'.length) = r.length + 1 := by omega
              rw [f1] at a; rw [f2] at b
              rw [a, b]
          · exact ih r.length (by simp) r (acc ++ [c]) extra rfl

end Flatcc.Props.C04
