import FlatccModel.Json
import FlatccModel.JsonScanProofs
/-!
# C04 — the JSON parser on any text (model-level theorems for the string scanner)

`parseBody` models `flatcc_json_parser_string_part` + `string_escape` in the loop of `build_string`. The theorems hold
for EVERY input byte list: the scanner is total (the fuel `length + 1` is never what makes it fail), consumes a prefix
of the input (what it returns as the rest is a suffix of what it was given — nothing behind the end is looked at), and
an escape is only accepted when all its bytes lie inside the input.
-/
namespace Flatcc.Props.C04
open Flatcc.Json

/-- an accepted escape consumed at least one byte and its rest is a suffix of its input -/
theorem decodeEscape_suffix (r : List Nat) (bytes r' : List Nat) (h : decodeEscape r = some (bytes, r')) :
    ∃ pre, pre ≠ [] ∧ r = pre ++ r' := by
  unfold decodeEscape at h
  split at h
  · split at h <;> simp at h
    obtain ⟨_, h2⟩ := h; subst h2; exact ⟨[120, _, _], by simp, rfl⟩
  · split at h
    · simp at h
    · split at h
      · split at h
        · split at h
          · split at h
            · simp at h; obtain ⟨_, h2⟩ := h; subst h2; exact ⟨[117, _, _, _, _, 92, 117, _, _, _, _], by simp, rfl⟩
            · simp at h; obtain ⟨_, h2⟩ := h; subst h2; exact ⟨[117, _, _, _, _], by simp, rfl⟩
          · simp at h; obtain ⟨_, h2⟩ := h; subst h2; exact ⟨[117, _, _, _, _], by simp, rfl⟩
        · simp at h; obtain ⟨_, h2⟩ := h; subst h2; exact ⟨[117, _, _, _, _], by simp, rfl⟩
      · simp at h; obtain ⟨_, h2⟩ := h; subst h2; exact ⟨[117, _, _, _, _], by simp, rfl⟩
  all_goals (first | (simp at h; obtain ⟨_, h2⟩ := h; subst h2; exact ⟨[_], by simp, rfl⟩) | simp at h)

/-- **The string scanner consumes a prefix of its input.** Whatever it returns as remaining input is a proper suffix of
what it was given: it never yields (nor needed to look at) anything behind the given bytes. -/
theorem C04_string_consumes_prefix (fuel : Nat) (input acc : List Nat) (out rest : List Nat)
    (h : parseBody fuel input acc = some (out, rest)) : ∃ pre, pre ≠ [] ∧ input = pre ++ rest := by
  induction fuel generalizing input acc with
  | zero => simp [parseBody] at h
  | succ f ih =>
    cases input with
    | nil => simp [parseBody] at h
    | cons c r =>
      simp only [parseBody] at h
      split at h
      · simp at h; obtain ⟨_, h2⟩ := h; subst h2; exact ⟨[c], by simp, rfl⟩
      · split at h
        · simp at h
        · split at h
          · split at h
            · rename_i bytes r' hd
              obtain ⟨p1, _, e1⟩ := decodeEscape_suffix r bytes r' hd
              obtain ⟨p2, _, e2⟩ := ih r' _ h
              exact ⟨c :: (p1 ++ p2), by simp, by rw [e1, e2]; simp⟩
            · simp at h
          · obtain ⟨p2, _, e2⟩ := ih r _ h
            exact ⟨c :: p2, by simp, by rw [e2]; rfl⟩

/-- **Totality.** More fuel than `length + 1` changes nothing: the loop ends because every round consumes input. -/
theorem C04_string_fuel_enough (input acc : List Nat) (extra : Nat) :
    parseBody (input.length + 1 + extra) input acc = parseBody (input.length + 1) input acc := by
  induction h : input.length using Nat.strongRecOn generalizing input acc extra with
  | ind n ih =>
    cases input with
    | nil =>
      subst h
      have : ([] : List Nat).length + 1 + extra = extra + 1 := by simp; omega
      rw [this]; simp [parseBody]
    | cons c r =>
      subst h
      have e1 : (c :: r).length + 1 + extra = (r.length + 1 + extra) + 1 := by simp; omega
      have e2 : (c :: r).length + 1 = (r.length + 1) + 1 := by simp
      rw [e1, e2]
      simp only [parseBody]
      split
      · rfl
      · split
        · rfl
        · split
          · cases hd : decodeEscape r with
            | none => rfl
            | some p =>
              obtain ⟨bytes, r'⟩ := p
              obtain ⟨pre, hne, he⟩ := decodeEscape_suffix r bytes r' hd
              have hl : r'.length < r.length := by
                rw [he, List.length_append]; have : 0 < pre.length := by cases pre with | nil => exact absurd rfl hne | cons _ _ => simp
                omega
              simp only []
              have a := ih r'.length (by simp; omega) r' (acc ++ bytes) (r.length - r'.length + extra) rfl
              have b := ih r'.length (by simp; omega) r' (acc ++ bytes) (r.length - r'.length) rfl
              have f1 : r'.length + 1 + (r.length - r'.length + extra) = r.length + 1 + extra := by omega
              have f2 : r'.length + 1 + (r.length - r'.length) = r.length + 1 := by omega
              rw [f1] at a; rw [f2] at b
              rw [a, b]
          · exact ih r.length (by simp) r (acc ++ [c]) extra rfl

end Flatcc.Props.C04

/-! ## the runtime's generic scanners (`JsonScan.lean`): every read guarded exactly as the C code guards it

Every dereference of the C functions is a guarded read in the model (`.oob` when outside the given bytes; the explicit
nesting stack of `flatcc_json_parser_generic_json` likewise). The theorems hold for EVERY input, start position and context. -/
namespace Flatcc.Props.C04
open Flatcc.JsonScan

/-- **No scanner reads outside the given bytes** (incl. the 8/16-byte fast paths of `space_ext`, `\u` escapes and surrogate
pairs at the very end of the input, numbers ending after `-`, `.`, `e`), nor outside the nesting stack. -/
theorem C04_scanners_read_in_bounds (inp : Array Nat) (i : Nat) (c : Ctx) (hi : i ≤ inp.size) :
    space inp i c ≠ .error .oob ∧
    spaceExt inp i c ≠ .error .oob ∧
    number inp i c ≠ .error .oob ∧
    skipConstant inp i c ≠ .error .oob ∧
    unmatchedSymbol inp i c ≠ .error .oob ∧
    generic inp i c ≠ .error .oob ∧
    symbolStart inp i c ≠ .error .oob ∧
    symbolEnd inp i c ≠ .error .oob ∧
    constantStart inp i c ≠ .error .oob ∧
    stringStart inp i c ≠ .error .oob ∧
    stringEnd inp i c ≠ .error .oob ∧
    stringPart inp i c ≠ .error .oob ∧
    stringEscape inp i c ≠ .error .oob ∧
    objectStart inp i c ≠ .error .oob ∧
    objectEnd inp i c ≠ .error .oob ∧
    arrayStart inp i c ≠ .error .oob ∧
    arrayEnd inp i c ≠ .error .oob :=
  ⟨space_no_oob inp i c hi, spaceExt_no_oob inp i c hi, number_no_oob inp i c hi, skipConstant_no_oob inp i c hi, unmatchedSymbol_no_oob inp i c hi, generic_no_oob inp i c hi, symbolStart_no_oob inp i c hi, symbolEnd_no_oob inp i c hi, constantStart_no_oob inp i c hi, stringStart_no_oob inp i c hi, stringEnd_no_oob inp i c hi, stringPart_no_oob inp i c hi, stringEscape_no_oob inp i c hi, objectStart_no_oob inp i c hi, objectEnd_no_oob inp i c hi, arrayStart_no_oob inp i c hi, arrayEnd_no_oob inp i c hi⟩

/-- **Positions and error locations stay inside the input**: the returned position `p` satisfies `i ≤ p ≤ end`, a newly
recorded error location lies in `[i, end]`, and an earlier error is never overwritten (first error wins). -/
theorem C04_scanners_positions_in_range (inp : Array Nat) (i : Nat) (c : Ctx) (hi : i ≤ inp.size) :
    (∀ p c', space inp i c = .ok (p, c') → InRange inp.size i c p c') ∧
    (∀ p c', spaceExt inp i c = .ok (p, c') → InRange inp.size i c p c') ∧
    (∀ p c', number inp i c = .ok (p, c') → InRange inp.size i c p c') ∧
    (∀ p c', skipConstant inp i c = .ok (p, c') → InRange inp.size i c p c') ∧
    (∀ p c', unmatchedSymbol inp i c = .ok (p, c') → InRange inp.size i c p c') ∧
    (∀ p c', generic inp i c = .ok (p, c') → InRange inp.size i c p c') ∧
    (∀ p c', symbolStart inp i c = .ok (p, c') → InRange inp.size i c p c') ∧
    (∀ p c', symbolEnd inp i c = .ok (p, c') → InRange inp.size i c p c') ∧
    (∀ p c', constantStart inp i c = .ok (p, c') → InRange inp.size i c p c') ∧
    (∀ p c', stringStart inp i c = .ok (p, c') → InRange inp.size i c p c') ∧
    (∀ p c', stringEnd inp i c = .ok (p, c') → InRange inp.size i c p c') ∧
    (∀ p c', stringPart inp i c = .ok (p, c') → InRange inp.size i c p c') ∧
    (∀ p c', stringEscape inp i c = .ok (p, c') → InRange inp.size i c p c') :=
  ⟨space_pos_in_range inp i c hi, spaceExt_pos_in_range inp i c hi, number_pos_in_range inp i c hi, skipConstant_pos_in_range inp i c hi, unmatchedSymbol_pos_in_range inp i c hi, generic_pos_in_range inp i c hi, symbolStart_pos_in_range inp i c hi, symbolEnd_pos_in_range inp i c hi, constantStart_pos_in_range inp i c hi, stringStart_pos_in_range inp i c hi, stringEnd_pos_in_range inp i c hi, stringPart_pos_in_range inp i c hi, stringEscape_pos_in_range inp i c hi⟩

/-- **The skipper of unknown values terminates** on every input (the fuel `end - pos + 1` of the model is never exhausted),
never nests deeper than the C array `stack[FLATCC_JSON_PARSE_GENERIC_MAX_NEST]` (the constant is re-read from the headers on
every run) and every state it passes through has its position inside the input. -/
theorem C04_generic_skipper_total (inp : Array Nat) (i : Nat) (c : Ctx) (hi : i ≤ inp.size) :
    (∃ r, generic inp i c = .ok r) ∧
    (∀ extra, genericF (inp.size - i + 1 + extra) inp i c = generic inp i c) ∧
    (∀ s, Reach (gStep inp) ⟨true, i, [], c⟩ s → s.stk.length ≤ MAX_NEST ∧ i ≤ s.i ∧ s.i ≤ inp.size) :=
  ⟨generic_terminates inp i c hi, fun extra => generic_fuel_enough inp i c hi extra,
   fun s h => ⟨generic_nesting_bounded inp i c hi s h, generic_states_in_range inp i c hi s h⟩⟩

/-- the other loops terminate as well -/
theorem C04_scanner_loops_terminate (inp : Array Nat) (i : Nat) (c : Ctx) (hi : i ≤ inp.size) :
    (∃ r, space inp i c = .ok r) ∧ (∃ r, number inp i c = .ok r) ∧ (∃ r, skipConstant inp i c = .ok r) ∧
    (∃ r, unmatchedSymbol inp i c = .ok r) ∧ (∃ r, symbolEnd inp i c = .ok r) :=
  ⟨space_terminates inp i c hi, number_terminates inp i c hi, skipConstant_terminates inp i c hi,
   unmatchedSymbol_terminates inp i c hi, symbolEnd_terminates inp i c hi⟩

end Flatcc.Props.C04
