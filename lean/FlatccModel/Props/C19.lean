import FlatccModel.NumProofs
/-!
# C19 — number → text → number is exact and range-checked (integer part)

Property theorems only. Floats (grisu3 / strtod) are outside the model: see DESIGN.md, C19.
-/
namespace Flatcc.Num

/-- what may follow a printed integer in JSON without changing how the scanner reads it:
end of input, or a byte that is neither a digit nor one of `e E .` -/
def Term (rest : List Nat) : Prop :=
  ∀ c cs, rest = c :: cs → isDigit c = false ∧ c ≠ 101 ∧ c ≠ 69 ∧ c ≠ 46

theorem term_nondigit {rest} (h : Term rest) : NonDigitHead rest := fun c cs e => (h c cs e).1

/-! ### printing is exact -/

theorem runPlan_spec' (plan : List St) (k : Nat) (hk : planDigits plan = k) (n : Nat) (h : n < 10 ^ k) :
    decval (runPlan plan n) = n ∧ AllDigits (runPlan plan n) ∧ (runPlan plan n).length = k := by
  subst hk; exact runPlan_spec plan n h

theorem C19_print_u8 (n : Nat) (h : n < 256) :
    decval (printU8 n) = n ∧ AllDigits (printU8 n) ∧ (printU8 n).length = klen8 n := by
  unfold printU8 klen8
  repeat' split
  all_goals (refine runPlan_spec' _ _ ?_ n ?_; rfl; omega)

theorem C19_print_u16 (n : Nat) (h : n < 65536) :
    decval (printU16 n) = n ∧ AllDigits (printU16 n) ∧ (printU16 n).length = klen16 n := by
  unfold printU16 klen16
  repeat' split
  all_goals (refine runPlan_spec' _ _ ?_ n ?_; rfl; omega)

theorem C19_print_u32 (n : Nat) (h : n < 4294967296) :
    decval (printU32 n) = n ∧ AllDigits (printU32 n) ∧ (printU32 n).length = klen32 n := by
  unfold printU32 klen32
  repeat' split
  all_goals (refine runPlan_spec' _ _ ?_ n ?_; rfl; omega)

theorem klen32_pos (n : Nat) : 1 ≤ klen32 n ∧ klen32 n ≤ 10 := by
  unfold klen32; repeat' split
  all_goals omega

theorem klen16_pos (n : Nat) : 1 ≤ klen16 n := by
  unfold klen16; repeat' split
  all_goals omega

theorem klen8_pos (n : Nat) : 1 ≤ klen8 n := by
  unfold klen8; repeat' split
  all_goals omega

theorem plan64_goal (k : Nat) (hk : planDigits (plan64 k) = k) (hk2 : 1 ≤ k ∧ k ≤ 20) (n : Nat) (h : n < 10 ^ k) :
    decval (runPlan (plan64 k) n) = n ∧ AllDigits (runPlan (plan64 k) n) ∧
      1 ≤ (runPlan (plan64 k) n).length ∧ (runPlan (plan64 k) n).length ≤ 20 := by
  have := runPlan_spec' (plan64 k) k hk n h
  exact ⟨this.1, this.2.1, by omega, by omega⟩

theorem C19_print_u64 (n : Nat) (h : n < 18446744073709551616) :
    decval (printU64 n) = n ∧ AllDigits (printU64 n) ∧ 1 ≤ (printU64 n).length ∧ (printU64 n).length ≤ 20 := by
  unfold printU64
  split
  · have := C19_print_u32 n (by omega)
    have hk := klen32_pos n
    exact ⟨this.1, this.2.1, by omega, by omega⟩
  · unfold klen64
    repeat' split
    all_goals (refine plan64_goal _ ?_ ?_ n ?_; rfl; omega; omega)

/-! ### the scanner is exact and never wraps -/

/-- Every digit text followed by a terminator is read as its exact value, or rejected when that
value does not fit 64 bits — for every length, with any number of leading zeros. -/
theorem C19_scan_exact (ds : List Nat) (hd : AllDigits ds) (hne : ds ≠ []) (rest : List Nat) (ht : Term rest) :
    (decval ds < 18446744073709551616 ∧ jsonInteger (ds ++ rest) = .ok false (decval ds) ds.length) ∨
    (decval ds ≥ 18446744073709551616 ∧ jsonInteger (ds ++ rest) = .range) := by
  cases ds with
  | nil => exact absurd rfl hne
  | cons d ds' =>
    have hdd : 48 ≤ d ∧ d ≤ 57 := hd d (List.mem_cons_self)
    have hneg : (d == 45) = false := by
      simp only [beq_eq_false_iff_ne, ne_eq]; omega
    have sp := digitLoop_spec (d :: ds') hd rest (term_nondigit ht) 0 0 (by omega)
    rw [← decval_eq_valFrom] at sp
    unfold jsonInteger jsonIntegerWith
    simp only [List.cons_append, hneg]
    simp only [List.cons_append] at sp
    rcases sp with ⟨h1, h2⟩ | ⟨h1, h2⟩
    · left
      refine ⟨h1, ?_⟩
      simp only [Bool.false_eq_true, if_false, h2, Nat.zero_add, Nat.add_zero, List.length_cons]
      have hdrop : (d :: (ds' ++ rest)).drop (ds'.length + 1) = rest := by
        have := drop_length_append (d :: ds') rest
        simpa using this
      rw [hdrop]
      have : ds'.length + 1 ≠ 0 := by omega
      simp only [this, if_false]
      cases rest with
      | nil => rfl
      | cons c cs =>
        have := ht c cs rfl
        simp only [this.2.1, this.2.2.1, this.2.2.2, or_self, if_false]
    · right
      refine ⟨h1, ?_⟩
      simp only [Bool.false_eq_true, if_false]
      generalize digitLoop (d :: (ds' ++ rest)) 0 0 = r at h2
      obtain ⟨r1, r2⟩ := r
      simp only at h2
      subst h2
      rfl

/-- The same for a negative text: sign recorded, magnitude exact or rejected. -/
theorem C19_scan_exact_neg (ds : List Nat) (hd : AllDigits ds) (rest : List Nat) (ht : Term rest) :
    (decval ds < 18446744073709551616 ∧ jsonInteger (45 :: ds ++ rest) = .ok true (decval ds) (ds.length + 1)) ∨
    (decval ds ≥ 18446744073709551616 ∧ jsonInteger (45 :: ds ++ rest) = .range) := by
  have sp := digitLoop_spec ds hd rest (term_nondigit ht) 0 0 (by omega)
  rw [← decval_eq_valFrom] at sp
  unfold jsonInteger jsonIntegerWith
  simp only [List.cons_append, beq_self_eq_true, if_true]
  rcases sp with ⟨h1, h2⟩ | ⟨h1, h2⟩
  · left
    refine ⟨h1, ?_⟩
    simp only [h2, Nat.zero_add]
    rw [drop_length_append]
    have : ds.length + 1 ≠ 0 := by omega
    simp only [this, if_false]
    cases rest with
    | nil => rfl
    | cons c cs =>
      have := ht c cs rfl
      simp only [this.2.1, this.2.2.1, this.2.2.2, or_self, if_false]
  · right
    refine ⟨h1, ?_⟩
    generalize digitLoop (ds ++ rest) 0 0 = r at h2
    obtain ⟨r1, r2⟩ := r
    simp only at h2
    subst h2
    rfl

/-- the pre-repair loop wrapped silently: 20500000000000000000 was read as 2053255926290448384 -/
theorem C19_old_loop_wraps :
    jsonIntegerWith digitLoopOld [50,48,53,48,48,48,48,48,48,48,48,48,48,48,48,48,48,48,48,48]
      = .ok false 2053255926290448384 20 := by decide

/-- … which the repaired loop rejects -/
example : jsonInteger [50,48,53,48,48,48,48,48,48,48,48,48,48,48,48,48,48,48,48,48] = .range := by decide

/-- integers are never accepted from fraction / exponent notation -/
theorem C19_no_fraction (ds : List Nat) (hd : AllDigits ds) (c : Nat) (hc : c = 46 ∨ c = 101 ∨ c = 69)
    (rest : List Nat) (neg : Bool) :
    ∀ v k, jsonInteger ((if neg then [45] else []) ++ ds ++ c :: rest) ≠ .ok neg v k := by
  intro v k
  have hnd : NonDigitHead (c :: rest) := by
    intro c' cs' e
    injection e with e1 e2; subst e1
    unfold isDigit; rcases hc with h | h | h <;> subst h <;> decide
  have sp := digitLoop_spec ds hd (c :: rest) hnd 0 0 (by omega)
  cases neg with
  | true =>
    simp only [if_true, List.cons_append, List.nil_append, List.append_assoc]
    unfold jsonInteger jsonIntegerWith
    simp only [beq_self_eq_true, if_true]
    rcases sp with ⟨_, h2⟩ | ⟨_, h2⟩
    · simp only [h2, Nat.zero_add]
      rw [drop_length_append]
      have : ds.length + 1 ≠ 0 := by omega
      simp only [this, if_false]
      rcases hc with h | h | h <;> subst h <;> simp
    · generalize digitLoop (ds ++ c :: rest) 0 0 = r at h2
      obtain ⟨r1, r2⟩ := r
      simp only at h2
      subst h2
      simp
  | false =>
    simp only [Bool.false_eq_true, if_false, List.nil_append]
    cases ds with
    | nil =>
      simp only [List.nil_append]
      unfold jsonInteger jsonIntegerWith
      have hneg : (c == 45) = false := by
        simp only [beq_eq_false_iff_ne, ne_eq]; omega
      have hdg := hnd c rest rfl
      simp only [hneg, Bool.false_eq_true, if_false, digitLoop, hdg]
      simp
    | cons d ds' =>
      have hdd : 48 ≤ d ∧ d ≤ 57 := hd d (List.mem_cons_self)
      have hneg : (d == 45) = false := by
        simp only [beq_eq_false_iff_ne, ne_eq]; omega
      unfold jsonInteger jsonIntegerWith
      simp only [List.cons_append, hneg, Bool.false_eq_true, if_false]
      simp only [List.cons_append] at sp
      rcases sp with ⟨_, h2⟩ | ⟨_, h2⟩
      · simp only [h2, Nat.zero_add, Nat.add_zero, List.length_cons]
        have hdrop : (d :: (ds' ++ c :: rest)).drop (ds'.length + 1) = c :: rest := by
          have := drop_length_append (d :: ds') (c :: rest)
          simpa using this
        rw [hdrop]
        have : ds'.length + 1 ≠ 0 := by omega
        simp only [this, if_false]
        rcases hc with h | h | h <;> subst h <;> simp
      · generalize digitLoop (d :: (ds' ++ c :: rest)) 0 0 = r at h2
        obtain ⟨r1, r2⟩ := r
        simp only at h2
        subst h2
        simp

/-! ### narrowing is a range check, not a truncation -/

theorem C19_narrow_unsigned (lim : Nat) (neg : Bool) (v r : Nat) (hl : 0 < lim)
    (h : coerceU lim neg v = some r) : neg = false ∧ v < lim ∧ r = v := by
  unfold coerceU at h
  split at h
  · contradiction
  · split at h
    · contradiction
    · injection h with h
      refine ⟨by simpa using ‹¬ neg = true›, by omega, h.symm⟩

theorem C19_unsigned_complete (lim : Nat) (v : Nat) (hv : v < lim) : coerceU lim false v = some v := by
  unfold coerceU
  simp only [Bool.false_eq_true, if_false]
  split
  · omega
  · rfl

/-- signed coercion yields exactly `±v`, inside the type's range, or fails: for int8/16/32/64 -/
theorem C19_narrow_signed (m : Nat) (hm : m = 128 ∨ m = 32768 ∨ m = 2147483648 ∨ m = 9223372036854775808)
    (neg : Bool) (v : Nat) (hv : v < 18446744073709551616) (r : Int) (h : coerceS m neg v = some r) :
    r = (if neg then -(v : Int) else (v : Int)) ∧ -(m : Int) ≤ r ∧ r < (m : Int) := by
  unfold coerceS at h
  cases neg with
  | true =>
    simp only [if_true] at h ⊢
    split at h
    · contradiction
    · injection h with h
      subst h
      rcases hm with hm | hm | hm | hm <;> subst hm <;> split <;> omega
  | false =>
    simp only [Bool.false_eq_true, if_false] at h ⊢
    split at h
    · contradiction
    · injection h with h
      subst h
      rcases hm with hm | hm | hm | hm <;> subst hm <;> omega

theorem C19_signed_complete (m : Nat) (hm : m = 128 ∨ m = 32768 ∨ m = 2147483648 ∨ m = 9223372036854775808)
    (i : Int) (hlo : -(m : Int) ≤ i) (hhi : i < (m : Int)) :
    coerceS m (decide (i < 0)) i.natAbs = some i := by
  unfold coerceS
  by_cases hneg : i < 0
  · simp only [hneg, decide_true, if_true]
    split
    · omega
    · congr 1
      rcases hm with hm | hm | hm | hm <;> subst hm <;> split <;> omega
  · simp only [hneg, decide_false, Bool.false_eq_true, if_false]
    split
    · omega
    · congr 1; omega

/-! ### print then parse is the identity -/

theorem C19_roundtrip_u64 (n : Nat) (h : n < 18446744073709551616) (rest : List Nat) (ht : Term rest) :
    jsonInteger (printU64 n ++ rest) = .ok false n (printU64 n).length ∧
    coerceU 18446744073709551616 false n = some n := by
  obtain ⟨h1, h2, h3, _⟩ := C19_print_u64 n h
  have hne : printU64 n ≠ [] := by intro e; rw [e] at h3; simp at h3
  have := C19_scan_exact (printU64 n) h2 hne rest ht
  rw [h1] at this
  rcases this with ⟨_, h⟩ | ⟨hge, _⟩
  · exact ⟨h, C19_unsigned_complete _ _ (by omega)⟩
  · omega

theorem C19_roundtrip_u32 (n : Nat) (h : n < 4294967296) (rest : List Nat) (ht : Term rest) :
    jsonInteger (printU32 n ++ rest) = .ok false n (printU32 n).length ∧
    coerceU 4294967296 false n = some n := by
  obtain ⟨h1, h2, h3⟩ := C19_print_u32 n h
  have hne : printU32 n ≠ [] := by
    intro e; rw [e] at h3; have := (klen32_pos n).1; simp at h3; omega
  have := C19_scan_exact (printU32 n) h2 hne rest ht
  rw [h1] at this
  rcases this with ⟨_, h⟩ | ⟨hge, _⟩
  · exact ⟨h, C19_unsigned_complete _ _ (by omega)⟩
  · omega

theorem C19_roundtrip_u16 (n : Nat) (h : n < 65536) (rest : List Nat) (ht : Term rest) :
    jsonInteger (printU16 n ++ rest) = .ok false n (printU16 n).length ∧
    coerceU 65536 false n = some n := by
  obtain ⟨h1, h2, h3⟩ := C19_print_u16 n h
  have hne : printU16 n ≠ [] := by
    intro e; rw [e] at h3; have := (klen16_pos n); simp at h3; omega
  have := C19_scan_exact (printU16 n) h2 hne rest ht
  rw [h1] at this
  rcases this with ⟨_, h⟩ | ⟨hge, _⟩
  · exact ⟨h, C19_unsigned_complete _ _ (by omega)⟩
  · omega

theorem C19_roundtrip_u8 (n : Nat) (h : n < 256) (rest : List Nat) (ht : Term rest) :
    jsonInteger (printU8 n ++ rest) = .ok false n (printU8 n).length ∧
    coerceU 256 false n = some n := by
  obtain ⟨h1, h2, h3⟩ := C19_print_u8 n h
  have hne : printU8 n ≠ [] := by
    intro e; rw [e] at h3; have := (klen8_pos n); simp at h3; omega
  have := C19_scan_exact (printU8 n) h2 hne rest ht
  rw [h1] at this
  rcases this with ⟨_, h⟩ | ⟨hge, _⟩
  · exact ⟨h, C19_unsigned_complete _ _ (by omega)⟩
  · omega

/-- signed round trip, stated once for any unsigned printer that is exact on magnitudes `≤ m` -/
theorem C19_roundtrip_signed (m : Nat) (hm : m = 128 ∨ m = 32768 ∨ m = 2147483648 ∨ m = 9223372036854775808)
    (pu : Nat → List Nat)
    (hpu : ∀ n, n ≤ m → decval (pu n) = n ∧ AllDigits (pu n) ∧ pu n ≠ [])
    (i : Int) (hlo : -(m : Int) ≤ i) (hhi : i < (m : Int)) (rest : List Nat) (ht : Term rest) :
    ∃ k, jsonInteger (printI pu i ++ rest) = .ok (decide (i < 0)) i.natAbs k ∧
         coerceS m (decide (i < 0)) i.natAbs = some i := by
  have hc := C19_signed_complete m hm i hlo hhi
  have hmag : i.natAbs ≤ m := by omega
  have hm64 : m ≤ 9223372036854775808 := by rcases hm with h | h | h | h <;> omega
  obtain ⟨p1, p2, p3⟩ := hpu i.natAbs hmag
  unfold printI
  by_cases hneg : i < 0
  · simp only [hneg, if_true, decide_true]
    have := C19_scan_exact_neg (pu i.natAbs) p2 rest ht
    rw [p1] at this
    rcases this with ⟨_, h⟩ | ⟨hge, _⟩
    · exact ⟨(pu i.natAbs).length + 1, by simpa using h, by simpa [hneg] using hc⟩
    · omega
  · simp only [hneg, if_false, decide_false]
    have := C19_scan_exact (pu i.natAbs) p2 p3 rest ht
    rw [p1] at this
    rcases this with ⟨_, h⟩ | ⟨hge, _⟩
    · exact ⟨(pu i.natAbs).length, h, by simpa [hneg] using hc⟩
    · omega

theorem C19_roundtrip_i64 (i : Int) (hlo : -9223372036854775808 ≤ i) (hhi : i < 9223372036854775808)
    (rest : List Nat) (ht : Term rest) :
    ∃ k, jsonInteger (printI64 i ++ rest) = .ok (decide (i < 0)) i.natAbs k ∧
         coerceS 9223372036854775808 (decide (i < 0)) i.natAbs = some i := by
  refine C19_roundtrip_signed 9223372036854775808 (by simp) printU64 ?_ i (by simpa using hlo) (by simpa using hhi) rest ht
  intro n hn
  obtain ⟨h1, h2, h3, _⟩ := C19_print_u64 n (by omega)
  exact ⟨h1, h2, by intro e; rw [e] at h3; simp at h3⟩

theorem C19_roundtrip_i32 (i : Int) (hlo : -2147483648 ≤ i) (hhi : i < 2147483648)
    (rest : List Nat) (ht : Term rest) :
    ∃ k, jsonInteger (printI32 i ++ rest) = .ok (decide (i < 0)) i.natAbs k ∧
         coerceS 2147483648 (decide (i < 0)) i.natAbs = some i := by
  refine C19_roundtrip_signed 2147483648 (by simp) printU32 ?_ i (by simpa using hlo) (by simpa using hhi) rest ht
  intro n hn
  obtain ⟨h1, h2, h3⟩ := C19_print_u32 n (by omega)
  refine ⟨h1, h2, ?_⟩
  intro e; rw [e] at h3; have := (klen32_pos n).1; simp at h3; omega

theorem C19_roundtrip_i16 (i : Int) (hlo : -32768 ≤ i) (hhi : i < 32768)
    (rest : List Nat) (ht : Term rest) :
    ∃ k, jsonInteger (printI16 i ++ rest) = .ok (decide (i < 0)) i.natAbs k ∧
         coerceS 32768 (decide (i < 0)) i.natAbs = some i := by
  refine C19_roundtrip_signed 32768 (by simp) printU16 ?_ i (by simpa using hlo) (by simpa using hhi) rest ht
  intro n hn
  obtain ⟨h1, h2, h3⟩ := C19_print_u16 n (by omega)
  refine ⟨h1, h2, ?_⟩
  intro e; rw [e] at h3; have := (klen16_pos n); simp at h3; omega

theorem C19_roundtrip_i8 (i : Int) (hlo : -128 ≤ i) (hhi : i < 128)
    (rest : List Nat) (ht : Term rest) :
    ∃ k, jsonInteger (printI8 i ++ rest) = .ok (decide (i < 0)) i.natAbs k ∧
         coerceS 128 (decide (i < 0)) i.natAbs = some i := by
  refine C19_roundtrip_signed 128 (by simp) printU8 ?_ i (by simpa using hlo) (by simpa using hhi) rest ht
  intro n hn
  obtain ⟨h1, h2, h3⟩ := C19_print_u8 n (by omega)
  refine ⟨h1, h2, ?_⟩
  intro e; rw [e] at h3; have := (klen8_pos n); simp at h3; omega

/-! ### non-vacuity -/
example : printU64 18446744073709551615 = [49,56,52,52,54,55,52,52,48,55,51,55,48,57,53,53,49,54,49,53] := by decide
example : printI64 (-9223372036854775808) = 45 :: [57,50,50,51,51,55,50,48,51,54,56,53,52,55,55,53,56,48,56] := by decide
example : Term [44] := by intro c cs e; injection e with e1 _; subst e1; decide
example : jsonInteger ([49,50,51] ++ [44]) = .ok false 123 3 := by decide

end Flatcc.Num
