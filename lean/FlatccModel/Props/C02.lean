import FlatccModel.BuilderProofs
import FlatccModel.Props.C03
/-!
# C02 — whatever the builder finishes is a valid FlatBuffer (model-level theorems)

Per created object: placement (alignment for its type at its absolute address in the emit address space, which the
buffer header then aligns to the reported alignment), vtable well-formedness, forward in-range offsets. The composition
over whole value trees and the verifier's acceptance are checked by execution on every generated case
(tools/props/c02.py), not proved; see DESIGN.md.
-/
namespace Flatcc.Props.C02
open Flatcc.Builder Flatcc.Props.C03

/-- `front_pad`: the payload of an object emitted at the front with this padding starts at an aligned address -/
theorem C02_front_pad_aligned (s : BS) (size align : Nat) (h : 0 < align) :
    (s.emitStart - size - frontPad s size align) % (align : Int) = 0 := frontPad_spec s size align h

theorem C02_string_placed (s : BS) (d : List Nat) :
    (createString s d).2 % 4 = 0 ∧ ((createString s d).1.front.drop (4 + d.length)).head? = some 0 :=
  ⟨createString_aligned s d, createString_terminated s d⟩

theorem C02_vector_placed (s : BS) (d : List Nat) (count align : Nat) :
    ((createVector s d count align).2 + 4) % ((max align 4 : Nat) : Int) = 0 := createVector_aligned s d count align

theorem C02_struct_placed (s : BS) (d : List Nat) (align : Nat) (h : 0 < align) :
    (createStruct s d align).2 % (align : Int) = 0 := createStruct_aligned s d align h

/-- a vtable emitted in front (nested buffer, or clustering disabled) starts at an even address, whatever was emitted
before it (this is the theorem the unpadded code did not satisfy after a byte-aligned struct of odd size) -/
theorem C02_vtable_front_placed (s : BS) (vt : List Nat) (h : ¬ (s.nestId = 0 ∧ s.clustering)) :
    ((createVtable s vt).2 - 1) % 2 = 0 := createVtable_front_aligned s vt h

/-- a clustered vtable goes to the end of the buffer, which stays even -/
theorem C02_vtable_back_placed (s : BS) (vt : List Nat) (h : s.nestId = 0 ∧ s.clustering) (he : s.back.length % 2 = 0)
    (hv : vt.length % 2 = 0) :
    ((createVtable s vt).2 - 1) % 2 = 0 ∧ (createVtable s vt).1.back.length % 2 = 0 := by
  unfold createVtable
  rw [if_pos h]
  simp only [emitBack, BS.emitEnd, List.length_append]
  omega

/-- the table starts 4-aligned and its first field position is aligned to the table's alignment -/
theorem C02_table_placed (s : BS) (fs : List (Nat × FieldVal)) (vtRef : Int) (h : FrameOK fs) :
    ((createTable s (layoutTable fs) vtRef).2 + 4) % (((layoutTable fs).align : Nat) : Int) = 0 ∧
    (createTable s (layoutTable fs) vtRef).2 % 4 = 0 := by
  obtain ⟨hob, _⟩ := layout_fields fs h.pos
  rw [createTable_ref _ _ _ hob]
  have ha := tableBase_aligned s (layoutTable fs)
  rw [h.align4.2] at ha
  refine ⟨ha, ?_⟩
  have h4 : ((4 : Nat) : Int) ∣ (((layoutTable fs).align : Nat) : Int) := by
    have := h.align4; rw [this.2] at this; exact Int.natCast_dvd_natCast.mpr this.1
  have := Int.dvd_trans h4 (Int.dvd_of_emod_eq_zero ha)
  omega

/-- the vtable `end_table` emits: its own size first, the table size second, and for every added field an entry that
keeps the field inside the table -/
theorem C02_vtable_wellformed (fs : List (Nat × FieldVal)) (h : FrameOK fs) :
    rd16 (vtableBytes (layoutTable fs)) 0 = (vtableBytes (layoutTable fs)).length ∧
    rd16 (vtableBytes (layoutTable fs)) 2 = (layoutTable fs).data.length + 4 ∧
    ∀ id size align bytes, (id, FieldVal.inl size align bytes) ∈ fs →
      4 ≤ vtLookup (vtableBytes (layoutTable fs)) id ∧
      vtLookup (vtableBytes (layoutTable fs)) id + size ≤ (layoutTable fs).data.length + 4 := by
  have hlen : (vtableBytes (layoutTable fs)).length = 2 * ((layoutTable fs).idEnd + 2) := by
    rw [vtableBytes_eq]
    simp only [List.length_append, le16_length, List.length_flatten, List.map_map]
    have : (List.map (List.length ∘ fun id => le16 (vtEntryOf (layoutTable fs) id)) (List.range (layoutTable fs).idEnd))
        = List.replicate (layoutTable fs).idEnd 2 := by
      apply List.ext_getElem <;> simp [le16_length]
    rw [this]; simp; omega
  refine ⟨?_, ?_, ?_⟩
  · rw [hlen]; exact rd16_of_slice _ _ _ (vtableBytes_size _) h.vtRange
  · apply rd16_of_slice _ _ _ _ h.tRange
    rw [vtableBytes_eq]; simp [slice, le16]
  · intro id size align bytes hf
    obtain ⟨e, hok, he, hm, h4, hle⟩ := entry_of_field fs h _ hf
    obtain ⟨e2, hm2, _, hv⟩ := hok
    have hids := (layout_ids fs).1
    have hu : e2 = e := by
      have a := find_of_nodup _ _ _ hm (by rw [hids]; exact h.nodup)
      have b := find_of_nodup _ _ _ hm2 (by rw [hids]; exact h.nodup)
      rw [a] at b; simpa using b.symm
    subst hu
    simp only at hv he
    rw [he]; exact ⟨h4, by have := hv.2.1; omega⟩

/-- signed reading of a 32-bit word (`soffset_t`) -/
def s32 (x : Nat) : Int := if x < 2147483648 then x else (x : Int) - 4294967296

/-- the table's first word leads back to its vtable: `table address - soffset = vtable address` (clustered vtables lie
after the table, the difference is negative; vtables emitted in front lie before it) -/
theorem C02_vtable_link (s : BS) (fs : List (Nat × FieldVal)) (vtRef : Int) (h : FrameOK fs)
    (hr : -2147483648 ≤ (createTable s (layoutTable fs) vtRef).2 - (vtRef - 1) ∧
          (createTable s (layoutTable fs) vtRef).2 - (vtRef - 1) < 2147483648) :
    (createTable s (layoutTable fs) vtRef).2 - s32 (rd32 (tableImage s (layoutTable fs) vtRef) 0) = vtRef - 1 := by
  obtain ⟨hob, _⟩ := layout_fields fs h.pos
  rw [createTable_ref _ _ _ hob] at hr ⊢
  have hlt : u32 (tableBase s (layoutTable fs) - (vtRef - 1)) < 4294967296 := by
    unfold u32; have := Int.emod_lt_of_pos (tableBase s (layoutTable fs) - (vtRef - 1)) (show (0:Int) < 4294967296 by omega); omega
  have : rd32 (tableImage s (layoutTable fs) vtRef) 0 = u32 (tableBase s (layoutTable fs) - (vtRef - 1)) := by
    apply rd32_of_slice _ _ _ _ hlt
    simp [tableImage, slice, le32]
  rw [this]
  obtain ⟨d, hd⟩ : ∃ d, d = tableBase s (layoutTable fs) - (vtRef - 1) := ⟨_, rfl⟩
  rw [← hd] at hr ⊢
  have hs : s32 (u32 d) = d := by
    unfold s32 u32
    by_cases h0 : 0 ≤ d
    · rw [Int.emod_eq_of_lt h0 (by omega)]
      rw [if_pos (by omega)]; omega
    · have : d % 4294967296 = d + 4294967296 := by
        rw [Int.emod_def]
        have : d / 4294967296 = -1 := by omega
        rw [this]; omega
      rw [this, if_neg (by omega)]; omega
  rw [hs]; omega

/-- offsets stored in a table point forward to the referenced object and are non-zero (restated from C03) -/
theorem C02_offsets_forward (s : BS) (fs : List (Nat × FieldVal)) (vtRef : Int) (h : FrameOK fs)
    (id : Nat) (r : Int) (hf : (id, FieldVal.off r) ∈ fs)
    (hr : s.emitStart ≤ r) (hr2 : r - (createTable s (layoutTable fs) vtRef).2 < 4294967296) :
    0 < rd32 (tableImage s (layoutTable fs) vtRef) (vtLookup (vtableBytes (layoutTable fs)) id) ∧
    (createTable s (layoutTable fs) vtRef).2 + vtLookup (vtableBytes (layoutTable fs)) id +
      rd32 (tableImage s (layoutTable fs) vtRef) (vtLookup (vtableBytes (layoutTable fs)) id) = r := by
  have := C03_offset_field s fs vtRef h id r hf hr hr2
  exact ⟨this.2.2.1, this.2.2.2⟩

/-- **Top-level buffer header.** The finished buffer starts at an address aligned to the alignment the builder then
reports at least (so every object aligned at its absolute address is aligned relative to the buffer start), that
alignment covers content, offset size and block alignment, and the root offset field leads to the root object. -/
theorem C02_buffer_header (s : BS) (ident : List Nat) (rootRef : Int) (a : Nat)
    (hroot : s.emitStart ≤ rootRef) (hr2 : rootRef - (createBuffer s ident rootRef a false).2 < 4294967296) :
    let r := createBuffer s ident rootRef a false
    let off := if s.withSize then 4 else 0
    r.2 % (bufAlign s a : Int) = 0 ∧ bufAlign s a ≤ r.1.minAlign ∧ r.2 = r.1.emitStart ∧
    r.2 + off + rd32 r.1.front off = rootRef := by
  intro r off
  obtain ⟨h1, h2, h3, h4⟩ := bufPrep_facts s (bufAlign s a) false
  have hal : 0 < bufAlign s a := by unfold bufAlign; omega
  obtain ⟨s1, hs1⟩ : ∃ s1, s1 = bufPrep s (bufAlign s a) false := ⟨_, rfl⟩
  rw [← hs1] at h1 h2 h3 h4
  obtain ⟨idOut, hid⟩ : ∃ idOut, idOut = (if ident.length = 4 ∧ ident ≠ [0, 0, 0, 0] then ident else []) := ⟨_, rfl⟩
  obtain ⟨A, hA⟩ : ∃ A, A = bufAlign s a := ⟨_, rfl⟩
  obtain ⟨pad, hpad⟩ : ∃ pad, pad = frontPad s1 (4 + idOut.length + (if s1.withSize then 4 else 0)) A := ⟨_, rfl⟩
  obtain ⟨hdr, hh⟩ : ∃ hdr, hdr = ((if s1.withSize then le32 (u32 (s1.emitEnd - (s1.emitStart - (((if s1.withSize then 4 else 0) + 4 + idOut.length + pad : Nat) : Int) + (if s1.withSize then 4 else 0)))) else []) ++
      le32 (u32 (rootRef - (s1.emitStart - (((if s1.withSize then 4 else 0) + 4 + idOut.length + pad : Nat) : Int) + (if s1.withSize then 4 else 0)))) ++ idOut ++ zeros pad) := ⟨_, rfl⟩
  have hr : r = emitFront s1 hdr := by
    subst hs1 hid hA hpad hh
    show createBuffer s ident rootRef a false = _
    unfold createBuffer bufHeader
    simp only [Bool.false_or, Bool.false_eq_true, if_false]
  have hspec := frontPad_spec s1 (4 + idOut.length + (if s1.withSize then 4 else 0)) A (by rw [hA]; exact hal)
  rw [← hpad] at hspec
  rw [← hA]
  have hmin : r.1.minAlign = s1.minAlign := by rw [hr]; rfl
  have hfront : r.1.front = hdr ++ s1.front := by rw [hr]; exact emitFront_front _ _
  have hr2' := hr2
  change rootRef - r.2 < 4294967296 at hr2'
  have href : r.2 = r.1.emitStart := by rw [hr, emitFront_ref, emitFront_start]
  refine ⟨?_, by rw [hmin, hA]; exact h3, href, ?_⟩
  · rw [hr, emitFront_ref, hh]
    cases hw : s1.withSize <;> simp only [hw, if_true, if_false, Bool.false_eq_true] at hspec ⊢ <;>
      simp only [List.length_append, le32_length, zeros_length, List.length_nil] <;>
      (push_cast at hspec ⊢; rw [← hspec]; congr 1; omega)
  · have hrv : r.2 = s1.emitStart - ((((if s1.withSize then 4 else 0) + 4 + idOut.length + pad : Nat)) : Int) := by
      rw [hr, emitFront_ref, hh]
      cases hw : s1.withSize <;> simp only [hw, if_true, if_false, Bool.false_eq_true] <;>
        simp only [List.length_append, le32_length, zeros_length, List.length_nil] <;> (push_cast; omega)
    rw [hfront]
    have hoff : off = if s1.withSize then 4 else 0 := by show (if s.withSize then 4 else 0) = _; rw [h2]
    rw [hrv] at hr2' ⊢
    rw [hoff, hh]
    cases hw : s1.withSize <;> simp only [hw, if_true, if_false, Bool.false_eq_true] at hr2' ⊢
    · rw [rd32_of_slice _ 0 (u32 (rootRef - (s1.emitStart - ((0 + 4 + idOut.length + pad : Nat) : Int) + (0:Nat)))) (by simp [slice, le32]) (by unfold u32; omega)]
      unfold u32; push_cast at hr2' ⊢; omega
    · rw [rd32_of_slice _ 4 (u32 (rootRef - (s1.emitStart - ((4 + 4 + idOut.length + pad : Nat) : Int) + (4:Nat)))) (by simp [slice, le32]) (by unfold u32; omega)]
      unfold u32; push_cast at hr2' ⊢; omega
end Flatcc.Props.C02
