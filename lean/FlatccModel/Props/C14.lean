import FlatccModel.Builder
import FlatccModel.Alloc
import FlatccModel.Generated.ResetFields
/-!
# C14 — a reset builder behaves like a fresh one, with bounded memory
-/
namespace Flatcc.Props.C14
open Flatcc.Builder Flatcc.Alloc

/-- **Reset ≡ fresh (model).** Whatever state earlier activity left — emitted bytes, alignment, nesting counters, vtable
cache, the settings of a buffer that was never ended (block alignment, flags, buffer mark), remembered references — the
reset state IS the initial state (up to the user's settings), so every later operation sequence behaves as on a fresh
builder. -/
theorem C14_reset_is_init (s : BS) : resetBS s = { initBS with clustering := s.clustering } := by
  simp [resetBS, initBS]

/-- in particular a build (bytes, reported alignment, emit calls) -/
theorem C14_reset_like_fresh (s : BS) (cfg : Config) (root : Val) :
    buildFrom (resetBS s) cfg root = buildFrom initBS cfg root := by
  rw [C14_reset_is_init]
  unfold buildFrom
  simp only [initBS]
  cases preFields cfg root with
  | some fields => rfl
  | none =>
    generalize buildVal (startBuffer { clustering := cfg.clustering } cfg.blockAlign cfg.withSize) root = r
    obtain ⟨s1, rr⟩ := r
    simp [endBuffer]

/-- and the header of a buffer created without `start_buffer` (`<struct>_create_as_root`), which reads the builder's
block alignment -/
theorem C14_reset_like_fresh_direct (s : BS) (a : Nat) :
    bufAlign (resetBS s) a = bufAlign initBS a := by
  simp [bufAlign, resetBS, initBS]

/-- the counters that make a later build differ if they survive: a builder whose `nest_count` is not cleared starts its
next top-level buffer as a nested one (non-vacuity of the theorem above: reset matters) -/
example : (startBuffer { initBS with nestCount := 1 } 0 false).nestId ≠ 0 := by decide

/-! ## each distinct vtable once per buffer -/

/-- cache keys: content, hash bucket, buffer -/
def key (e : VtEntry) : List Nat × Nat × Nat := (e.bytes, e.bucket, e.nestId)

/-- `create_cached_vtable` emits a vtable exactly when no entry with the same content, bucket and buffer is cached, and
afterwards one is; the cache never holds two entries with the same key. -/
theorem C14_vtable_once (s : BS) (vt : List Nat) (hash : Nat) (hnd : (s.vtCache.map key).Nodup) :
    ((createCachedVtable s vt hash).1.vtCache.map key).Nodup ∧
    (vt, vtBucket hash, s.nestId) ∈ (createCachedVtable s vt hash).1.vtCache.map key ∧
    ((vt, vtBucket hash, s.nestId) ∈ s.vtCache.map key →
      (createCachedVtable s vt hash).1.front = s.front ∧ (createCachedVtable s vt hash).1.back = s.back) := by
  unfold createCachedVtable
  cases hf : s.vtCache.find? (fun e => e.bytes == vt && e.nestId == s.nestId && e.bucket == vtBucket hash) with
  | some e =>
    have hm := List.mem_of_find?_eq_some hf
    have hp := List.find?_some hf
    simp only [Bool.and_eq_true, beq_iff_eq] at hp
    refine ⟨hnd, ?_, fun _ => ⟨rfl, rfl⟩⟩
    exact List.mem_map.mpr ⟨e, hm, by simp [key, hp.1.1, hp.1.2, hp.2]⟩
  | none =>
    have hnot : (vt, vtBucket hash, s.nestId) ∉ s.vtCache.map key := by
      intro hc
      obtain ⟨e, he, hk⟩ := List.mem_map.mp hc
      have := List.find?_eq_none.mp hf e he
      simp only [key, Prod.mk.injEq] at hk
      simp [hk.1, hk.2.1, hk.2.2] at this
    have hcache : (createVtable s vt).1.vtCache = s.vtCache := by
      unfold createVtable; split <;> rfl
    simp only [hcache, List.map_cons, List.nodup_cons, key]
    exact ⟨⟨hnot, hnd⟩, by simp, fun h => absurd h hnot⟩

/-! ## memory stays bounded -/

/-- one allocator call never returns less than requested and never more than the larger of the default size and twice
the request, unless the buffer already was larger (it is then kept) -/
theorem C14_alloc_step (len request hint : Nat) (h : 1 ≤ request) :
    request ≤ defaultAlloc len request hint ∧
    defaultAlloc len request hint ≤ max len (max (base hint request) (2 * request)) := by
  unfold defaultAlloc
  rw [if_neg (by omega)]
  have hb := base_pos hint request h
  obtain ⟨g1, g2, g3⟩ := growTo_spec request (base hint request) request hb (by omega)
  simp only []
  split
  · rename_i hc; exact ⟨hc.1, by omega⟩
  · refine ⟨g1, ?_⟩
    rcases g2 with g2 | g2 <;> omega

/-- **Footprint bound.** After any number of allocator calls whose requests never exceed `m` (what one build needs —
by `C14_reset_like_fresh` the same for every build after a reset), a buffer is never larger than the larger of its
initial size, the largest default size and `2 m`: no growth with the number of builds. -/
theorem C14_footprint_bounded (hint m : Nat) (reqs : List Nat) (len0 : Nat) (hm : ∀ r ∈ reqs, 1 ≤ r ∧ r ≤ m) :
    reqs.foldl (fun len r => defaultAlloc len r hint) len0 ≤
      max len0 (max (max m (max 256 (Flatcc.Consts.builderFrameSize * 8))) (2 * m)) := by
  induction reqs generalizing len0 with
  | nil => simp only [List.foldl_nil]; omega
  | cons r rs ih =>
    simp only [List.foldl_cons]
    have h1 := hm r (by simp)
    have hstep := (C14_alloc_step len0 r hint h1.1).2
    have hb := base_le hint r
    have := ih (defaultAlloc len0 r hint) (fun x hx => hm x (by simp [hx]))
    omega

/-! ## the reset function of the current source clears what the model's reset clears

`Generated/ResetFields.lean` is re-extracted from `flatcc_builder_custom_reset` on every run. `resetBS` clears the emitted
stream (emit_start/emit_end + the emitter), min_align, nest_id/nest_count, the vtable cache (vb_end, vd_end, zeroed hash
table) and — not part of `BS` but of the footprint theorem's premise that every build makes the same requests — the frame
and user frame stacks. -/
def modelResetNeeds : List String :=
  ["emit_start", "emit_end", "min_align", "nest_id", "nest_count", "block_align", "buffer_flags", "buffer_mark",
   "vb_end", "vd_end", "level", "frame", "ds_offset", "ds_first", "user_frame_offset", "user_frame_end"]

theorem C14_source_reset_covers_model :
    (∀ f ∈ modelResetNeeds, f ∈ Flatcc.Consts.resetAssigned) ∧
    "buffers_zeroed" ∈ Flatcc.Consts.resetFacts ∧ "emitter_reset" ∈ Flatcc.Consts.resetFacts := by decide

end Flatcc.Props.C14
