import FlatccModel.Layout
/-!
# C07 — the layout the compiler computes follows the FlatBuffers rules (struct layout, implicit field ids)
-/
namespace Flatcc.Layout

theorem alignUp_ge (s a : Nat) (ha : 0 < a) : s ≤ alignUp s a := by
  unfold alignUp
  have h := Nat.div_add_mod (s + a - 1) a
  have hm : (s + a - 1) % a < a := Nat.mod_lt _ ha
  have : (s + a - 1) / a * a = a * ((s + a - 1) / a) := Nat.mul_comm _ _
  omega

theorem alignUp_mod (s a : Nat) : alignUp s a % a = 0 := by
  unfold alignUp; exact Nat.mul_mod_left _ _

theorem alignUp_lt (s a : Nat) (ha : 0 < a) : alignUp s a < s + a := by
  unfold alignUp
  have h := Nat.div_add_mod (s + a - 1) a
  have : (s + a - 1) / a * a = a * ((s + a - 1) / a) := Nat.mul_comm _ _
  omega

/-- the layout predicate of the FlatBuffers struct rules for a member list starting at running size `s0` -/
def GoodLayout : List Member → List Nat → Nat → Prop
  | [], [], _ => True
  | m :: ms, o :: os, s0 => s0 ≤ o ∧ o % m.align = 0 ∧ o < s0 + m.align ∧ GoodLayout ms os (o + m.size)
  | _, _, _ => False

theorem layoutLoop_spec : ∀ (ms : List Member) (size align : Nat) (offs : List Nat),
    (∀ m ∈ ms, 0 < m.align) →
    ∃ os, (layoutLoop ms size align offs).2.2 = offs.reverse ++ os ∧ os.length = ms.length ∧ GoodLayout ms os size ∧
      (∀ m ∈ ms, m.align ≤ (layoutLoop ms size align offs).2.1) ∧ align ≤ (layoutLoop ms size align offs).2.1 ∧
      size ≤ (layoutLoop ms size align offs).1 ∧
      ((layoutLoop ms size align offs).2.1 = align ∨ ∃ m ∈ ms, (layoutLoop ms size align offs).2.1 = m.align) := by
  intro ms
  induction ms with
  | nil => intro size align offs _; exact ⟨[], by simp [layoutLoop], rfl, trivial, by simp, Nat.le_refl _, Nat.le_refl _, Or.inl rfl⟩
  | cons m r ih =>
    intro size align offs hpos
    have hm : 0 < m.align := hpos m List.mem_cons_self
    obtain ⟨os, h1, h2, h3, h4, h5, h6, h7⟩ := ih (alignUp size m.align + m.size) (max align m.align) (alignUp size m.align :: offs)
      (fun x hx => hpos x (List.mem_cons_of_mem _ hx))
    refine ⟨alignUp size m.align :: os, ?_, by simp [h2], ?_, ?_, ?_, ?_, ?_⟩
    · simp only [layoutLoop]; rw [h1]; simp
    · exact ⟨alignUp_ge _ _ hm, alignUp_mod _ _, alignUp_lt _ _ hm, h3⟩
    · intro x hx
      simp only [layoutLoop]
      rcases List.mem_cons.mp hx with rfl | hx
      · exact Nat.le_trans (Nat.le_max_right _ _) h5
      · exact h4 x hx
    · simp only [layoutLoop]; exact Nat.le_trans (Nat.le_max_left _ _) h5
    · simp only [layoutLoop]
      have := alignUp_ge size m.align hm
      omega
    · simp only [layoutLoop]
      rcases h7 with h | ⟨x, hx, h⟩
      · rw [h]
        by_cases hc : align ≤ m.align
        · right; exact ⟨m, List.mem_cons_self, by rw [Nat.max_eq_right hc]⟩
        · left; rw [Nat.max_eq_left (by omega)]
      · right; exact ⟨x, List.mem_cons_of_mem _ hx, h⟩

/-- Accepted structs: every member offset is aligned to the member's alignment, members do not overlap
and follow each other with less than one alignment unit of padding, the struct alignment is the
force_align value or the largest member alignment, and the size is a multiple of it covering all members. -/
theorem C07_struct_layout (ms : List Member) (fa size align : Nat) (offs : List Nat)
    (hpos : ∀ m ∈ ms, 0 < m.align) (h : layoutStruct ms fa = some (size, align, offs)) :
    offs.length = ms.length ∧ GoodLayout ms offs 0 ∧ size % align = 0 ∧ 0 < size ∧
    (∀ m ∈ ms, m.align ≤ align) ∧
    (fa > 0 → align = fa) ∧ (fa = 0 → align = 1 ∨ ∃ m ∈ ms, align = m.align) := by
  unfold layoutStruct at h
  obtain ⟨os, h1, h2, h3, h4, h5, h6, h7⟩ := layoutLoop_spec ms 0 1 [] hpos
  generalize hr : layoutLoop ms 0 1 [] = r at h h1 h4 h5 h6 h7
  obtain ⟨rs, ra, ro⟩ := r
  simp only [] at h h1 h4 h5 h6 h7
  split at h
  · contradiction
  · rename_i hfa
    simp only [List.reverse_nil, List.nil_append] at h1
    subst h1
    by_cases hf : fa > 0
    · simp only [hf, if_true] at h
      split at h
      · contradiction
      · rename_i hz
        injection h with h
        simp only [Prod.mk.injEq] at h
        obtain ⟨e1, e2, e3⟩ := h
        subst e3
        refine ⟨h2, h3, ?_, by omega, ?_, ?_, ?_⟩
        · rw [← e1, ← e2]; exact alignUp_mod _ _
        · intro m hm; have := h4 m hm; omega
        · intro _; exact e2.symm
        · intro h0; omega
    · simp only [hf, if_false] at h
      split at h
      · contradiction
      · rename_i hz
        injection h with h
        simp only [Prod.mk.injEq] at h
        obtain ⟨e1, e2, e3⟩ := h
        subst e3
        refine ⟨h2, h3, ?_, by omega, ?_, ?_, ?_⟩
        · rw [← e1, ← e2]; exact alignUp_mod _ _
        · intro m hm; have := h4 m hm; omega
        · intro h0; omega
        · intro _; rw [← e2]; exact h7

/-- implicit field ids: consecutive from the start value, a union (vector) field takes two ids and its value id
is its hidden type id + 1 ≥ 1 -/
theorem C07_ids (fields : List Bool) (start : Nat) :
    (assignIds fields start).length = fields.length ∧
    (∀ i, i < fields.length → start ≤ (assignIds fields start).getD i 0 ∧
      (fields.getD i false = true → start + 1 ≤ (assignIds fields start).getD i 0)) ∧
    List.Pairwise (· < ·) (assignIds fields start) := by
  induction fields generalizing start with
  | nil => exact ⟨rfl, by intro i hi; simp at hi, List.Pairwise.nil⟩
  | cons b r ih =>
    unfold assignIds
    by_cases hb : b = true
    · simp only [hb, if_true]
      obtain ⟨h1, h2, h3⟩ := ih (start + 2)
      refine ⟨by simp [h1], ?_, ?_⟩
      · intro i hi
        cases i with
        | zero => simp
        | succ i =>
          have := h2 i (by simpa using hi)
          simp only [List.getD_cons_succ]
          exact ⟨by omega, fun hu => by have := this.2 hu; omega⟩
      · refine List.Pairwise.cons ?_ h3
        intro a ha
        obtain ⟨i, hi, rfl⟩ := List.getElem_of_mem ha
        have := h2 i (by rw [← h1]; exact hi)
        rw [List.getD_eq_getElem?_getD, List.getElem?_eq_getElem hi] at this
        simp only [Option.getD_some] at this
        omega
    · have hb' : b = false := by simpa using hb
      simp only [hb', Bool.false_eq_true, if_false]
      obtain ⟨h1, h2, h3⟩ := ih (start + 1)
      refine ⟨by simp [h1], ?_, ?_⟩
      · intro i hi
        cases i with
        | zero => simp
        | succ i =>
          have := h2 i (by simpa using hi)
          simp only [List.getD_cons_succ]
          exact ⟨by omega, fun hu => by have := this.2 hu; omega⟩
      · refine List.Pairwise.cons ?_ h3
        intro a ha
        obtain ⟨i, hi, rfl⟩ := List.getElem_of_mem ha
        have := h2 i (by rw [← h1]; exact hi)
        rw [List.getD_eq_getElem?_getD, List.getElem?_eq_getElem hi] at this
        simp only [Option.getD_some] at this
        omega

example : layoutStruct [⟨1, 1⟩, ⟨4, 4⟩, ⟨6, 2⟩] 0 = some (16, 4, [0, 4, 8]) := by decide
example : layoutStruct [⟨1, 1⟩] 16 = some (16, 16, [0]) := by decide
example : assignIds [false, true, false, true] 0 = [0, 2, 3, 5] := by decide

end Flatcc.Layout
