import FlatccModel.CharArrayProofs
import FlatccModel.Props.C04
/-! ## fixed-length char arrays (`flatcc_json_parser_char_array`, `CharArray.lean`)

The destination is modelled as the bytes stored so far plus the C variable `n` (room left); a `memcpy` of `k` bytes stores `k`
bytes whatever `k` is, so that staying inside the array is a theorem, not a property of the representation. -/
namespace Flatcc.Props.C04
open Flatcc.CharArray

/-- **The char array is never overrun.** For EVERY text, array length and flag set: the variant of the model that checks every
store against the array bounds (and `n -= k` against wrap-around) never trips — it equals the unchecked one —, every single
copy stores at most the room that is left (or the call fails with the overflow error, only when `skip_array_overflow` is off),
and a successful call has stored exactly `N` bytes. -/
theorem C04_char_array_in_bounds (N : Nat) (f : Flags) (text : List Nat) :
    charArrayG N f text = charArray N f text ∧
    charArray N f text ≠ .error .outOfFuel ∧
    (∀ w rest, charArray N f text = .ok (w, rest) → w.length = N) :=
  ⟨charArrayG_eq N f text, charArray_never_out_of_fuel N f text, fun w rest h => charArray_writes_exactly_N N f text w rest h⟩

/-- **… and holds what it should.** When the text is a well-formed JSON string `s` (by the string scanner of C05), the result
is: overflow error if `|s| > N` without `skip_array_overflow`; underflow error if `|s| < N` with `reject_array_underflow`;
otherwise the first `N` bytes of `s`, zero padded. A malformed string is always an error. -/
theorem C04_char_array_spec (N : Nat) (f : Flags) (text : List Nat) :
    (∀ s rest, Flatcc.Json.parseString text = some (s, rest) → charArray N f text = specResult N f s rest) ∧
    (Flatcc.Json.parseString text = none → ∃ e, charArray N f text = .error e ∧ Genuine f e) :=
  ⟨fun s rest h => charArray_spec N f text s rest h, charArray_spec_none N f text⟩

end Flatcc.Props.C04
