import FlatccModel.Trie
/-!
# C10 — JSON field / enum names dispatch exactly (per generated trie)

`Tree` is the decision code the compiler emitted for one dictionary `d` (sorted names), read as
byte-list semantics: the parser's 8-byte big-endian word compares (`w < tag`, `(w & mask) == tag`)
are lexicographic compares on the 8-byte window, `matchAt idx n` is the terminator test
(`match_symbol` / `match_constant`) at window offset `n`, `descend` moves the window by 8.
`snd` and `cmp` are decidable checks run on the actual tree of every generated parser on every
check run; these theorems say what passing them means, for ALL inputs.
-/
namespace Flatcc.Trie

/-- Soundness: if the validated trie dispatches an input to entry `i`, the input really starts with
name `i` followed by the terminator — for every input, of any length, whatever follows. -/
theorem C10_no_false_dispatch (d : List Key) (t : Tree) (h : snd d t [] [] = true) (s : List Nat) (i : Nat)
    (he : eval t s 0 = some i) : i < d.length ∧ Matches s (d.getD i []) :=
  snd_sound d t s 0 [] [] i h ⟨rfl, fun j hj => by simp at hj, fun j hj => by simp at hj⟩ he

/-- Completeness: every declared name, followed by the terminator and by anything at all (or the end
of the buffer), is dispatched to its own entry. -/
theorem C10_every_name_dispatches (d : List Key) (t : Tree) (i : Nat)
    (hkey : ∀ j, j < (d.getD i []).length → (d.getD i []).getD j 0 ≠ term)
    (hc : cmp (d.getD i []) i t 0 = true) (s : List Nat) (hm : Matches s (d.getD i [])) :
    eval t s 0 = some i :=
  cmp_complete (d.getD i []) i hkey t 0 s hm hc

/-- names are distinct and terminator-free ⇒ an input matches at most one of them -/
theorem matches_unique (k1 k2 : Key) (s : List Nat) (h1 : Matches s k1) (h2 : Matches s k2)
    (hk1 : ∀ j, j < k1.length → k1.getD j 0 ≠ term) (hk2 : ∀ j, j < k2.length → k2.getD j 0 ≠ term) : k1 = k2 := by
  have hl : k1.length = k2.length := by
    rcases Nat.lt_trichotomy k1.length k2.length with h | h | h
    · exact absurd (by rw [← h2.2.1 _ h]; exact h1.2.2) (hk2 _ h)
    · exact h
    · exact absurd (by rw [← h1.2.1 _ h]; exact h2.2.2) (hk1 _ h)
  apply List.ext_getElem hl
  intro j hj1 hj2
  have a := h1.2.1 j hj1
  have b := h2.2.1 j hj2
  rw [List.getD_eq_getElem?_getD, List.getElem?_eq_getElem hj1] at a
  rw [List.getD_eq_getElem?_getD, List.getElem?_eq_getElem hj2] at b
  simp only [Option.getD_some] at a b
  rw [← a, ← b]

/-- Exactness: a validated trie maps every declared name to that entry and nothing else, and every
input that is not a declared name followed by the terminator to "unmatched". -/
theorem C10_exact (d : List Key) (t : Tree) (hs : snd d t [] [] = true)
    (hc : ∀ i, i < d.length → cmp (d.getD i []) i t 0 = true)
    (hterm : ∀ i, i < d.length → ∀ j, j < (d.getD i []).length → (d.getD i []).getD j 0 ≠ term)
    (hdist : ∀ i j, i < d.length → j < d.length → d.getD i [] = d.getD j [] → i = j) (s : List Nat) :
    (∀ i, i < d.length → Matches s (d.getD i []) → eval t s 0 = some i) ∧
    ((∀ i, i < d.length → ¬ Matches s (d.getD i [])) → eval t s 0 = none) := by
  constructor
  · intro i hi hm
    exact C10_every_name_dispatches d t i (hterm i hi) (hc i hi) s hm
  · intro hno
    cases he : eval t s 0 with
    | none => rfl
    | some i =>
      have := C10_no_false_dispatch d t hs s i he
      exact absurd this.2 (hno i this.1)

example : snd [[97], [97, 98]] (.eqm 2 [97, 98] (.matchAt 1 2 .unmatched) (.eqm 1 [97] (.matchAt 0 1 .unmatched) .unmatched)) [] [] = true := by decide
example : cmp [97] 0 (.eqm 2 [97, 98] (.matchAt 1 2 .unmatched) (.eqm 1 [97] (.matchAt 0 1 .unmatched) .unmatched)) 0 = true := by decide

end Flatcc.Trie
