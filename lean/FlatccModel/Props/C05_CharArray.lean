import FlatccModel.CharArrayProofs
import FlatccModel.Props.C05
/-! ## fixed-length char arrays: `print_char_array` (trailing NULs stripped, then escaped like a string) vs
`flatcc_json_parser_char_array` -/
namespace Flatcc.Props.C05
open Flatcc.CharArray

/-- **Char arrays round-trip** for every content (embedded NULs, quotes, control characters, high bytes, full to the last
byte or padded), every continuation and both settings of `skip_array_overflow`; with `reject_array_underflow` exactly the
arrays that do not end in NUL do (the printer strips the padding, which that flag then refuses — shown by the second part). -/
theorem C05_char_array_roundtrip (N : Nat) (f : Flags) (a rest : List Nat) (ha : a.length = N) :
    (f.rejectUnderflow = false ∨ stripZeros a = a → charArray N f (printCharArray a ++ rest) = .ok (a, rest)) ∧
    (stripZeros a = a ↔ a.getLast? ≠ some 0) :=
  ⟨charArray_roundtrip N f a rest ha, stripZeros_eq_self_iff a⟩

example : charArray 6 ⟨false, false⟩ (printCharArray [97, 34, 0, 10, 92, 31] ++ [44]) = .ok ([97, 34, 0, 10, 92, 31], [44]) := by decide

end Flatcc.Props.C05
