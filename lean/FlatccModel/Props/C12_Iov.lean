import FlatccModel.BuilderProofs
import FlatccModel.Props.C03_Vectors
/-!
# The pieces (`iov` entries) of every emit call the builder makes

`push_iov` skips pieces of length 0, so the pieces of a call are the non-empty ones among the parts the byte image is made of.
For every `create_*` function of `Builder.lean`: the pieces listed here concatenate to exactly the bytes the model emits, none
is empty, and there are between 1 and 4 of them (`FLATCC_IOV_COUNT_MAX` is 8).
-/
namespace Flatcc.Builder

/-- `push_iov`: zero-length pieces are not recorded -/
def nz (ps : List (List Nat)) : List (List Nat) := ps.filter (fun p => !p.isEmpty)

theorem nz_flatten (ps : List (List Nat)) : (nz ps).flatten = ps.flatten := by
  induction ps with
  | nil => rfl
  | cons p ps ih =>
    unfold nz at *
    cases p with
    | nil => simpa using ih
    | cons x xs => simp [List.filter_cons, ih]

theorem nz_nonempty (ps : List (List Nat)) : ∀ p ∈ nz ps, p ≠ [] := by
  intro p hp
  unfold nz at hp
  have := (List.mem_filter.mp hp).2
  intro h; subst h; simp at this

theorem nz_length_le (ps : List (List Nat)) : (nz ps).length ≤ ps.length := by
  unfold nz; exact List.length_filter_le _ _

/-- what is demanded of the pieces of one emit call -/
def IovOK (pieces : List (List Nat)) (bytes : List Nat) : Prop :=
  pieces.flatten = bytes ∧ (∀ p ∈ pieces, p ≠ []) ∧ 1 ≤ pieces.length ∧ pieces.length ≤ Flatcc.Consts.iovCountMax

theorem iovOK_of (ps : List (List Nat)) (bytes : List Nat) (hb : ps.flatten = bytes) (h1 : ∃ p ∈ ps, p ≠ [])
    (hl : ps.length ≤ Flatcc.Consts.iovCountMax) : IovOK (nz ps) bytes := by
  refine ⟨by rw [nz_flatten, hb], nz_nonempty ps, ?_, Nat.le_trans (nz_length_le ps) hl⟩
  obtain ⟨p, hp, hne⟩ := h1
  have : p ∈ nz ps := by
    unfold nz; rw [List.mem_filter]; refine ⟨hp, ?_⟩
    cases p with
    | nil => exact absurd rfl hne
    | cons _ _ => rfl
  exact List.length_pos_of_mem this

/-! ## the pieces of each call -/

def stringIov (s : BS) (d : List Nat) : List (List Nat) := nz [le32 d.length, d, zeros (frontPad s (d.length + 1) 4 + 1)]

def vectorIov (s : BS) (d : List Nat) (count align : Nat) : List (List Nat) :=
  nz [le32 count, d, zeros (frontPad s d.length (max align 4))]

def structIov (s : BS) (d : List Nat) (align : Nat) : List (List Nat) := nz [d, zeros (frontPad s d.length align)]

def vtableIov (s : BS) (vt : List Nat) : List (List Nat) :=
  if s.nestId = 0 ∧ s.clustering then nz [vt] else nz [vt, zeros (frontPad s vt.length 2)]

def tableIov (s : BS) (t : TableLayout) (vtRef : Int) : List (List Nat) :=
  nz [le32 (u32 (tableBase s t - (vtRef - 1))), patchAll (tableBase s t) t.data t.offsets, zeros (frontPad s t.data.length (max t.align 4))]

theorem C12_iov_string (s : BS) (d : List Nat) :
    IovOK (stringIov s d) (le32 d.length ++ d ++ zeros (frontPad s (d.length + 1) 4 + 1)) ∧
    (createString s d).1.front = (stringIov s d).flatten ++ s.front := by
  have h := iovOK_of [le32 d.length, d, zeros (frontPad s (d.length + 1) 4 + 1)] (le32 d.length ++ d ++ zeros (frontPad s (d.length + 1) 4 + 1))
    (by simp) ⟨le32 d.length, by simp, by simp [le32]⟩ (by simp [Flatcc.Consts.iovCountMax])
  refine ⟨h, ?_⟩
  unfold createString
  rw [emitFront_front]
  unfold stringIov
  rw [h.1]

theorem C12_iov_vector (s : BS) (d : List Nat) (count align : Nat) :
    IovOK (vectorIov s d count align) (le32 count ++ d ++ zeros (frontPad s d.length (max align 4))) ∧
    (createVector s d count align).1.front = (vectorIov s d count align).flatten ++ s.front := by
  have h := iovOK_of [le32 count, d, zeros (frontPad s d.length (max align 4))] (le32 count ++ d ++ zeros (frontPad s d.length (max align 4)))
    (by simp) ⟨le32 count, by simp, by simp [le32]⟩ (by simp [Flatcc.Consts.iovCountMax])
  refine ⟨h, ?_⟩
  unfold createVector
  simp only []
  rw [emitFront_front, setMinAlign_frontPad]
  unfold vectorIov
  rw [h.1]
  congr 1
  unfold setMinAlign; split <;> rfl

theorem C12_iov_struct (s : BS) (d : List Nat) (align : Nat) (hd : d ≠ []) :
    IovOK (structIov s d align) (d ++ zeros (frontPad s d.length align)) ∧
    (createStruct s d align).1.front = (structIov s d align).flatten ++ s.front := by
  have h := iovOK_of [d, zeros (frontPad s d.length align)] (d ++ zeros (frontPad s d.length align))
    (by simp) ⟨d, by simp, hd⟩ (by simp [Flatcc.Consts.iovCountMax])
  refine ⟨h, ?_⟩
  unfold createStruct
  simp only []
  rw [emitFront_front, setMinAlign_frontPad]
  unfold structIov
  rw [h.1]
  congr 1
  unfold setMinAlign; split <;> rfl

theorem C12_iov_table (s : BS) (t : TableLayout) (vtRef : Int) :
    IovOK (tableIov s t vtRef) (tableImage s t vtRef) ∧
    (createTable s t vtRef).1.front = (tableIov s t vtRef).flatten ++ s.front := by
  have h := iovOK_of [le32 (u32 (tableBase s t - (vtRef - 1))), patchAll (tableBase s t) t.data t.offsets, zeros (frontPad s t.data.length (max t.align 4))]
    (tableImage s t vtRef) (by simp [tableImage]) ⟨le32 (u32 (tableBase s t - (vtRef - 1))), by simp, by simp [le32]⟩ (by simp [Flatcc.Consts.iovCountMax])
  refine ⟨h, ?_⟩
  rw [createTable_eq, emitFront_front]
  unfold tableIov
  rw [h.1]
  congr 1
  unfold setMinAlign; split <;> rfl

theorem C12_iov_vtable (s : BS) (vt : List Nat) (hv : vt ≠ []) :
    ∃ bytes, IovOK (vtableIov s vt) bytes ∧
      ((s.nestId = 0 ∧ s.clustering) → (createVtable s vt).1.back = s.back ++ bytes) ∧
      (¬ (s.nestId = 0 ∧ s.clustering) → (createVtable s vt).1.front = bytes ++ s.front) := by
  by_cases hc : s.nestId = 0 ∧ s.clustering
  · refine ⟨vt, ?_, ?_, fun h => absurd hc h⟩
    · unfold vtableIov; rw [if_pos hc]
      exact iovOK_of [vt] vt (by simp) ⟨vt, by simp, hv⟩ (by simp [Flatcc.Consts.iovCountMax])
    · intro _; unfold createVtable; rw [if_pos hc]; rfl
  · refine ⟨vt ++ zeros (frontPad s vt.length 2), ?_, fun h => absurd h hc, ?_⟩
    · unfold vtableIov; rw [if_neg hc]
      exact iovOK_of [vt, zeros (frontPad s vt.length 2)] _ (by simp) ⟨vt, by simp, hv⟩ (by simp [Flatcc.Consts.iovCountMax])
    · intro _; unfold createVtable; rw [if_neg hc]; rfl

/-- `_create_offset_vector_direct` -/
def offsetVectorIov (s : BS) (refs : List Int) : List (List Nat) :=
  nz [le32 refs.length, (Flatcc.Props.C03.ovElems (Flatcc.Props.C03.ovBase s refs) refs).flatten, zeros (frontPad s (4 * refs.length) 4)]

theorem C12_iov_offset_vector (s : BS) (refs : List Int) :
    IovOK (offsetVectorIov s refs) (le32 refs.length ++ (Flatcc.Props.C03.ovElems (Flatcc.Props.C03.ovBase s refs) refs).flatten ++ zeros (frontPad s (4 * refs.length) 4)) ∧
    (createOffsetVector s refs).1.front = (offsetVectorIov s refs).flatten ++ s.front := by
  have h := iovOK_of [le32 refs.length, (Flatcc.Props.C03.ovElems (Flatcc.Props.C03.ovBase s refs) refs).flatten, zeros (frontPad s (4 * refs.length) 4)]
    (le32 refs.length ++ (Flatcc.Props.C03.ovElems (Flatcc.Props.C03.ovBase s refs) refs).flatten ++ zeros (frontPad s (4 * refs.length) 4))
    (by simp) ⟨le32 refs.length, by simp, by simp [le32]⟩ (by simp [Flatcc.Consts.iovCountMax])
  refine ⟨h, ?_⟩
  rw [Flatcc.Props.C03.createOffsetVector_eq, emitFront_front]
  unfold offsetVectorIov
  rw [h.1]
  congr 1
  unfold setMinAlign; split <;> rfl

/-- `flatcc_builder_create_buffer`: [size field] root offset [identifier] [padding] -/
def bufHeaderIov (s : BS) (ident : List Nat) (rootRef : Int) (align : Nat) (nested : Bool) : List (List Nat) :=
  let idOut := if ident.length = 4 ∧ ident ≠ [0, 0, 0, 0] then ident else []
  let sized := nested || s.withSize
  let headerPad := frontPad s (4 + idOut.length + (if s.withSize then 4 else 0)) align
  let len := (if sized then 4 else 0) + 4 + idOut.length + headerPad
  let bufferBase : Int := s.emitStart - (len : Nat) + (if sized then 4 else 0)
  let bufferSize := if nested then u32 (s.bufferMark - bufferBase) else u32 (s.emitEnd - bufferBase)
  nz [(if sized then le32 bufferSize else []), le32 (u32 (rootRef - bufferBase)), idOut, zeros headerPad]

theorem C12_iov_buffer_header (s : BS) (ident : List Nat) (rootRef : Int) (align : Nat) (nested : Bool) :
    IovOK (bufHeaderIov s ident rootRef align nested) (bufHeader s ident rootRef align nested) := by
  simp only [bufHeaderIov, bufHeader]
  exact iovOK_of _ _ (by simp) ⟨_, List.mem_cons_of_mem _ (List.mem_cons_self ..), by simp [le32]⟩ (by simp [Flatcc.Consts.iovCountMax])

/-- `align_buffer_end`: one piece of padding at the back, only when there is something to pad -/
theorem C12_iov_end_pad (n : Nat) (h : n ≠ 0) : IovOK (nz [zeros n]) (zeros n) :=
  iovOK_of [zeros n] (zeros n) (by simp) ⟨zeros n, by simp, by cases n <;> simp_all [zeros, List.replicate_succ]⟩ (by simp [Flatcc.Consts.iovCountMax])

/-- `flatcc_builder_embed_buffer` inside an open buffer frame -/
def embedIov (s : BS) (data : List Nat) (pad : Nat) : List (List Nat) := nz [le32 (data.length + pad), data, zeros pad]

theorem C12_iov_embed (s : BS) (data : List Nat) (pad : Nat) :
    IovOK (embedIov s data pad) (le32 (data.length + pad) ++ data ++ zeros pad) :=
  iovOK_of _ _ (by simp) ⟨le32 (data.length + pad), by simp, by simp [le32]⟩ (by simp [Flatcc.Consts.iovCountMax])

end Flatcc.Builder
