import FlatccModel.Reader
/-! # C01 — verifier acceptance implies in-bounds, aligned, terminating reads (theorems: work in progress) -/
namespace Flatcc.Verifier
theorem C01_placeholder_checkHeader (e b o : Nat) (h : checkHeader e b o = true) : w32 (b + o) + 4 ≤ e := by
  unfold checkHeader at h
  simp only [Bool.and_eq_true, decide_eq_true_eq] at h
  omega
end Flatcc.Verifier
