import FlatccModel.VerifierSound4
import FlatccModel.VerifierWF
/-!
# C01 — verifier acceptance implies in-bounds, aligned reads

`S` is the schema as the runtime sees it (the call lists of the generated verifiers, `WF S M` = what
the schema compiler guarantees about them: ids < 32766, alignments are powers of two dividing `M`,
vector max counts that cannot overflow, union ids ≥ 1), `c` ANY byte string of any size with any
content at ANY address (`c.A`).  No placement of the buffer is assumed: the header check rejects an
address that is not a multiple of 4, and every wider alignment is checked by the verifier on the
absolute address.  `Safe c a` = access `a` (offset, length, alignment) lies inside the `c.n` bytes and
is aligned at its absolute address.  `rootAcc`/`tableAcc` list every read the generated reader API
makes for the type, to any depth (`fuel`), including every vector element, every string up to and
including its terminator, every union member and union vector element, and — through
`<field>_as_root` — everything inside nested buffers (nested table roots and nested struct roots),
which the verifier checks as buffers of their own at the address where they lie.

Not covered here (see DESIGN.md): the JSON printer's walk, the verifier's own reads
(checked by the correspondence run only).
-/
namespace Flatcc.Verifier

/-- Main theorem: an accepted table root is safe to read through every accessor, for every buffer at every address. -/
theorem C01_table_root {c : Ctx} {M : Nat} (hm4 : 4 ∣ M) (hmp : M ∣ 4294967296) (S : Schema) (w : WF S M) (idHash t : Nat)
    (h : verifyTableAsRoot S c idHash t = .ok ()) :
    ∀ fuel a, a ∈ rootAcc S c fuel t → Safe c a := by
  intro fuel a ha
  unfold verifyTableAsRoot at h
  obtain ⟨_, hh, h⟩ := bind_ok h
  obtain ⟨P, _⟩ := verifyHeader_placed hm4 hmp hh
  obtain ⟨o, ho, h⟩ := bind_ok h
  obtain ⟨h04, ho2⟩ := rd32_ok ho
  have holt := r32_lt c 0
  unfold rootAcc at ha
  simp only [List.mem_cons] at ha
  rcases ha with rfl | ha
  · exact safe4 P (by omega) (by omega)
  · rw [← ho2] at ha
    have := table_sound P S w 128 0 o maxLevels t (by omega) (by omega) h fuel a
    rw [Nat.zero_add] at this
    exact this ha

/-- The form applied to generated code: the only hypothesis about the schema is the Boolean `wfB`, which every check run evaluates on the
call lists extracted from the `*_verifier.h` files the current compiler generates (tools/genverifier.py). -/
theorem C01_generated_verifier {c : Ctx} {M : Nat} (S : Schema) (hw : wfB S M = true) (idHash t : Nat)
    (h : verifyTableAsRoot S c idHash t = .ok ()) :
    ∀ fuel a, a ∈ rootAcc S c fuel t → Safe c a := by
  obtain ⟨h4, hp, w⟩ := wfB_sound hw
  exact C01_table_root h4 hp S w idHash t h

/-- The size-prefixed variants: the root offset is read at 4, and every access stays inside the
prefix-declared size (which the header check bounds by the given size). -/
theorem C01_table_root_with_size {c : Ctx} {M : Nat} (hm4 : 4 ∣ M) (hmp : M ∣ 4294967296) (S : Schema) (w : WF S M) (idHash t : Nat)
    (h : verifyTableAsRootWithSize S c idHash t = .ok ()) :
    ∃ n', n' ≤ c.n ∧ ∀ fuel a, a ∈ (⟨4, 4, 4⟩ :: tableAcc S { c with n := n' } fuel (4 + r32 c 4) t) →
      Safe { c with n := n' } a := by
  unfold verifyTableAsRootWithSize at h
  obtain ⟨n', hh, h⟩ := bind_ok h
  obtain ⟨o, ho, h⟩ := bind_ok h
  obtain ⟨h44, ho2⟩ := rd32_ok ho
  -- header: n' = size field + 4 ≤ c.n, and at least 12 bytes
  unfold verifyHeaderWithSize at hh
  obtain ⟨_, g1, hh⟩ := bind_ok hh
  obtain ⟨_, g2, hh⟩ := bind_ok hh
  obtain ⟨_, g3, hh⟩ := bind_ok hh
  obtain ⟨sz, hsz, hh⟩ := bind_ok hh
  obtain ⟨_, g4, hh⟩ := bind_ok hh
  obtain ⟨_, _, hh⟩ := bind_ok hh
  have e : sz + 4 = n' := pure_ok hh
  have k1 := guard_ok g1; have k2 := guard_ok g2; have k3 := guard_ok g3; have k4 := guard_ok g4
  simp only [decide_eq_true_eq] at k1 k2 k3 k4
  have hle : n' ≤ c.n := by omega
  have P' : Placed { c with n := n' } M := ⟨hm4, hmp, k1, by show n' ≤ 4294967287; omega⟩
  refine ⟨n', hle, ?_⟩
  intro fuel a ha
  simp only [List.mem_cons] at ha
  -- to enter verifyTable the header of the root table had to be inside n'
  have holt := r32_lt c 4
  rcases ha with rfl | ha
  · -- the verifier read the root offset inside n' (checkHeader of the root table needs 4 + o + 4 ≤ n')
    cases hf : (128 : Nat) with
    | zero => simp at hf
    | succ f =>
      rw [hf] at h
      obtain ⟨td, inv, htab, _, _⟩ := verifyTable_header P' S f 4 o maxLevels t (by omega) (by omega) h
      have := inv.tab4
      exact safe4 P' (by show 4 + 4 ≤ n'; rw [htab] at this; show 8 ≤ n'; simp only [] at this; omega) (by decide)
  · rw [← ho2] at ha
    exact table_sound P' S w 128 4 o maxLevels t (by omega) (by omega) h fuel a ha

/-- struct roots: the struct lies inside the buffer and is aligned at its address -/
theorem C01_struct_root {c : Ctx} {M : Nat} (hm4 : 4 ∣ M) (hmp : M ∣ 4294967296) (idHash size align : Nat)
    (hal : align ∣ M) (hsize : size < 4294967296)
    (h : verifyStructAsRoot c idHash size align = .ok ()) :
    Safe c ⟨0, 4, 4⟩ ∧ Safe c ⟨r32 c 0, size, align⟩ := by
  unfold verifyStructAsRoot at h
  obtain ⟨_, hh, h⟩ := bind_ok h
  obtain ⟨P, _⟩ := verifyHeader_placed hm4 hmp hh
  obtain ⟨o, ho, h⟩ := bind_ok h
  obtain ⟨h04, ho2⟩ := rd32_ok ho
  have holt := r32_lt c 0
  refine ⟨safe4 P (by omega) (by omega), ?_⟩
  have := verifyStruct_safe P (Nat.le_refl _) (by omega) hsize hal h
  rw [Nat.zero_add, ho2] at this
  exact this

/-- nested table roots, spelled out: if the enclosing table verifier accepted the field, everything the nested root accessor
reads lies inside the enclosing buffer (indeed inside the nested bytes) and is aligned at its address -/
theorem C01_nested_root_inside {c : Ctx} {s len : Nat} (hr : s + len ≤ c.n) {a : Access} (h : Safe (sub c s len) a) :
    Safe c (shiftAcc s a) ∧ s ≤ (shiftAcc s a).addr ∧ (shiftAcc s a).addr + (shiftAcc s a).len ≤ s + len := by
  refine ⟨safe_shift hr h, ?_, ?_⟩
  · unfold shiftAcc; simp
  · have := h.1
    unfold shiftAcc; simp only []
    have e : (sub c s len).n = len := rfl
    omega

/-- the reader never writes: an access is a read by construction (the model has no write constructor),
and the verifier model's only effect is its verdict -/
theorem C01_readonly (S : Schema) (c : Ctx) (fuel t : Nat) :
    ∀ a ∈ rootAcc S c fuel t, ∃ addr len align, a = ⟨addr, len, align⟩ := by
  intro a _; exact ⟨a.addr, a.len, a.align, rfl⟩

/-- the hypotheses are satisfiable: a schema with every kind of call, nested roots included -/
example : WF { tables := [[⟨0, false, .scalar 4 4⟩, ⟨1, true, .string⟩, ⟨2, false, .vector 8 8 536870911⟩,
                           ⟨3, false, .stringVector⟩, ⟨4, false, .table 0⟩, ⟨5, false, .tableVector 0⟩,
                           ⟨7, false, .union 0⟩, ⟨9, false, .unionVector 0⟩, ⟨10, false, .nestedTable 0 1⟩,
                           ⟨11, false, .nestedStruct 32 16⟩]],
               unions := [[(1, .table 0), (2, .struct 16 16), (3, .string)]] } 16 := by
  refine ⟨?_, ?_⟩
  · intro fs hfs f hf
    simp only [List.mem_cons, List.mem_nil_iff, or_false] at hfs
    subst hfs
    simp only [List.mem_cons, List.mem_nil_iff, or_false] at hf
    rcases hf with rfl | rfl | rfl | rfl | rfl | rfl | rfl | rfl | rfl | rfl <;> (unfold FieldWF; simp) <;> decide
  · intro ms hms cm hcm
    simp only [List.mem_cons, List.mem_nil_iff, or_false] at hms
    subst hms
    simp only [List.mem_cons, List.mem_nil_iff, or_false] at hcm
    rcases hcm with rfl | rfl | rfl <;> (unfold MemberWF; simp) <;> decide

end Flatcc.Verifier
