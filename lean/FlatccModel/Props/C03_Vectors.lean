import FlatccModel.BuilderProofs
import FlatccModel.Props.C03
/-!
# C03 — offset vectors (string vectors, table vectors, union value vectors) and union fields read back exactly
-/
namespace Flatcc.Props.C03
open Flatcc.Builder

theorem flatten_len4 (L : List (List Nat)) (h : ∀ x ∈ L, x.length = 4) : L.flatten.length = 4 * L.length := by
  induction L with
  | nil => rfl
  | cons x xs ih =>
    simp only [List.flatten_cons, List.length_append, List.length_cons]
    rw [h x (by simp), ih (fun y hy => h y (by simp [hy]))]; omega

/-- the element slots of an offset vector -/
def ovElems (base : Int) (refs : List Int) : List (List Nat) :=
  refs.zipIdx.map (fun (r, i) => if r = 0 then le32 0 else le32 (u32 (r - base - (4 * i : Nat) - 4)))

theorem ovElems_len (base : Int) (refs : List Int) : (ovElems base refs).length = refs.length := by
  simp [ovElems]

theorem ovElems_all4 (base : Int) (refs : List Int) : ∀ x ∈ ovElems base refs, x.length = 4 := by
  intro x hx
  simp only [ovElems, List.mem_map] at hx
  obtain ⟨⟨r, i⟩, _, he⟩ := hx
  subst he
  simp only
  split <;> rfl

theorem ovElems_get (base : Int) (refs : List Int) (i : Nat) (hi : i < refs.length) :
    (ovElems base refs)[i]'(by rw [ovElems_len]; exact hi) =
      if refs[i] = 0 then le32 0 else le32 (u32 (refs[i] - base - (4 * i : Nat) - 4)) := by
  simp [ovElems, List.getElem_zipIdx]

/-- address of the offset vector `createOffsetVector` returns -/
def ovBase (s : BS) (refs : List Int) : Int :=
  s.emitStart - (4 + 4 * refs.length + frontPad s (4 * refs.length) 4 : Nat)

theorem createOffsetVector_eq (s : BS) (refs : List Int) :
    createOffsetVector s refs =
      emitFront (setMinAlign s 4) (le32 refs.length ++ (ovElems (ovBase s refs) refs).flatten ++ zeros (frontPad s (4 * refs.length) 4)) := by
  unfold createOffsetVector ovElems ovBase
  simp only [setMinAlign_frontPad, setMinAlign_start]

/-- **Offset vectors.** The emitted object starts 4-aligned with the element count; element `i` holds 0 for a null reference
(NONE in a union vector) and otherwise the distance from the element's own address to the referenced object, for every object
created earlier: `element address + value = reference` — so the reader finds the same objects in the same order. -/
theorem C03_offset_vector (s : BS) (refs : List Int) (i : Nat) (hi : i < refs.length) (hn : refs.length < 4294967296) :
    let img := (createOffsetVector s refs).1.front
    let v := (createOffsetVector s refs).2
    rd32 img 0 = refs.length ∧ v % 4 = 0 ∧
    (refs[i] = 0 → rd32 img (4 + 4 * i) = 0) ∧
    (refs[i] ≠ 0 → s.emitStart ≤ refs[i] → refs[i] - v < 4294967296 →
      0 < rd32 img (4 + 4 * i) ∧ v + (4 + 4 * i : Nat) + rd32 img (4 + 4 * i) = refs[i]) := by
  intro img v
  have hlen : (ovElems (ovBase s refs) refs).flatten.length = 4 * refs.length := by
    rw [flatten_len4 _ (ovElems_all4 _ _), ovElems_len]
  have hv : v = ovBase s refs := by
    show (createOffsetVector s refs).2 = _
    rw [createOffsetVector_eq, emitFront_ref, setMinAlign_start]
    simp only [List.length_append, le32_length, zeros_length, hlen]
    unfold ovBase; push_cast; omega
  have himg : img = le32 refs.length ++ (ovElems (ovBase s refs) refs).flatten ++ zeros (frontPad s (4 * refs.length) 4) ++ (setMinAlign s 4).front := by
    show (createOffsetVector s refs).1.front = _
    rw [createOffsetVector_eq, emitFront_front]
  have hal : v % 4 = 0 := by
    rw [hv]
    have := frontPad_spec s (4 * refs.length) 4 (by omega)
    unfold ovBase; push_cast at this ⊢; omega
  -- the slot of element i
  have hslot : slice img (4 + 4 * i) 4 = if refs[i] = 0 then le32 0 else le32 (u32 (refs[i] - ovBase s refs - (4 * i : Nat) - 4)) := by
    rw [himg, List.append_assoc, List.append_assoc]
    unfold slice
    rw [List.drop_append, List.drop_eq_nil_of_le (by simp [le32_length]), List.nil_append, le32_length]
    have e : 4 + 4 * i - 4 = 4 * i := by omega
    rw [e, List.drop_append_of_le_length (by rw [hlen]; omega), List.take_append_of_le_length (by simp [hlen]; omega)]
    have := flatten_chunk (ovElems (ovBase s refs) refs) 4 (ovElems_all4 _ _) i (by rw [ovElems_len]; exact hi)
    rw [this, ovElems_get _ _ _ hi]
  refine ⟨?_, hal, ?_, ?_⟩
  · apply rd32_of_slice _ _ _ _ hn
    rw [himg]; simp [slice, le32]
  · intro h0
    apply rd32_of_slice _ _ _ _ (by omega)
    rw [hslot, if_pos h0]
  · intro hne hge hlt
    rw [hv] at hlt ⊢
    have hbelow : ovBase s refs + (4 + 4 * i : Nat) + 4 ≤ s.emitStart := by
      unfold ovBase; push_cast; omega
    have hval : u32 (refs[i] - ovBase s refs - (4 * i : Nat) - 4) = (refs[i] - (ovBase s refs + (4 + 4 * i : Nat))).toNat := by
      unfold u32
      have : refs[i] - ovBase s refs - ((4 * i : Nat) : Int) - 4 = refs[i] - (ovBase s refs + ((4 + 4 * i : Nat) : Int)) := by push_cast; omega
      rw [this, Int.emod_eq_of_lt (by omega) (by omega)]
    have hrd : rd32 img (4 + 4 * i) = (refs[i] - (ovBase s refs + (4 + 4 * i : Nat))).toNat := by
      rw [rd32_of_slice _ _ _ (by rw [hslot, if_neg hne]) (by rw [hval]; omega)]
      exact hval
    rw [hrd]
    constructor <;> omega

/-- **Union fields.** A union is the pair (type code: one inline byte at id − 1, value: an offset field at id). Whatever else the
table holds, the reader finds the type code given and, through the value field, exactly the member object that was referenced. -/
theorem C03_union_field (s : BS) (fs : List (Nat × FieldVal)) (vtRef : Int) (h : FrameOK fs)
    (id ty : Nat) (r : Int) (ht : (id - 1, FieldVal.inl 1 1 [ty]) ∈ fs) (hv : (id, FieldVal.off r) ∈ fs)
    (hr : s.emitStart ≤ r) (hr2 : r - (createTable s (layoutTable fs) vtRef).2 < 4294967296) :
    let t := layoutTable fs
    let et := vtLookup (vtableBytes t) (id - 1)
    let ev := vtLookup (vtableBytes t) id
    et ≠ 0 ∧ slice (tableImage s t vtRef) et 1 = [ty] ∧
    ev ≠ 0 ∧ (createTable s t vtRef).2 + ev + rd32 (tableImage s t vtRef) ev = r := by
  intro t et ev
  have h1 := C03_inline_field s fs vtRef h (id - 1) 1 1 [ty] ht (by simp)
  have h2 := C03_offset_field s fs vtRef h id r hv hr hr2
  simp only at h1 h2
  refine ⟨h1.1, ?_, h2.1, h2.2.2.2⟩
  have := h1.2.1
  simpa [zeros] using this

/-! Non-vacuity of `C03_offset_vector`: three references, one of them null. -/
example : (createOffsetVector initBS [8, 0, 20]).2 = -16 := by decide

end Flatcc.Props.C03
