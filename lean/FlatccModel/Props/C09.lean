import FlatccModel.Evolution
import FlatccModel.VerifierSound4
/-!
# C09 — schema evolution keeps old and new code interoperable (verifier / reader level)

`A` is the old schema, `B` the new one (`Extends A B`: fields, union members, tables only added).
-/
namespace Flatcc.Verifier

/-- every buffer the new schema's verifier accepts is accepted by the old schema's verifier —
for ALL byte strings, not only those a builder produced (A's checks are a subset of B's; union
codes unknown to A are accepted without following the value) -/
theorem C09_new_to_old {A B : Schema} (E : Extends A B) (c : Ctx) (idHash t : Nat)
    (h : verifyTableAsRoot B c idHash t = .ok ()) : verifyTableAsRoot A c idHash t = .ok () := by
  unfold verifyTableAsRoot at h ⊢
  refine bind_mono (fun _ h => ?_) h
  exact bind_mono (fun o h => table_mono E 128 c _ _ _ _ h) h

theorem C09_new_to_old_with_size {A B : Schema} (E : Extends A B) (c : Ctx) (idHash t : Nat)
    (h : verifyTableAsRootWithSize B c idHash t = .ok ()) : verifyTableAsRootWithSize A c idHash t = .ok () := by
  unfold verifyTableAsRootWithSize at h ⊢
  refine bind_mono (fun n' h => ?_) h
  exact bind_mono (fun o h => table_mono E 128 _ _ _ _ _ h) h

/-- … and is then safe to read with the old reader (C01 for `A`) -/
theorem C09_old_reader_safe {A B : Schema} (E : Extends A B) {c : Ctx} {M : Nat} (hm4 : 4 ∣ M) (hmp : M ∣ 4294967296) (w : WF A M)
    (idHash t : Nat) (h : verifyTableAsRoot B c idHash t = .ok ()) :
    ∀ fuel a, a ∈ rootAcc A c fuel t → Safe c a := by
  have hA := C09_new_to_old E c idHash t h
  intro fuel a ha
  unfold verifyTableAsRoot at hA
  obtain ⟨_, hh, hA⟩ := bind_ok hA
  obtain ⟨P, _⟩ := verifyHeader_placed hm4 hmp hh
  obtain ⟨o, ho, hA⟩ := bind_ok hA
  obtain ⟨h04, ho2⟩ := rd32_ok ho
  have holt := r32_lt c 0
  unfold rootAcc at ha
  simp only [List.mem_cons] at ha
  rcases ha with rfl | ha
  · exact safe4 P (by omega) (by omega)
  · rw [← ho2] at ha
    have := table_sound P A w 128 0 o maxLevels t (by omega) (by omega) hA fuel a
    rw [Nat.zero_add] at this
    exact this ha

/-- shared fields read the same: what the reader does for a field depends on the buffer, the field's
id and kind only — not on which schema version generated the accessor -/
theorem C09_shared_reads_leaf (A B : Schema) (c : Ctx) (fuel table : Nat) (f : Field)
    (hleaf : (∃ s a, f.kind = .scalar s a) ∨ f.kind = .string ∨ (∃ e a m, f.kind = .vector e a m) ∨ f.kind = .stringVector) :
    fieldAcc A c fuel table f = fieldAcc B c fuel table f := by
  unfold fieldAcc
  rcases hleaf with ⟨s, a, h⟩ | h | ⟨e, a, m, h⟩ | h <;> simp only [h]

/-- a union member whose code the old schema does not know is accepted without being followed, and
the old reader reads nothing behind it (it is seen as NONE / skipped) -/
theorem C09_union_unknown (A : Schema) (c : Ctx) (fuel u ty b o : Nat) (ttl : Int)
    (h : lookupMember (A.union u) ty = none) :
    verifyMember A c fuel b o ttl (lookupMember (A.union u) ty) = .ok () ∧
    memberAcc A c fuel (b + o) (lookupMember (A.union u) ty) = [] := by
  rw [h]; constructor
  · unfold verifyMember; rfl
  · unfold memberAcc; rfl

/-- non-vacuity: appending a field and a union member is an extension -/
example : Extends { tables := [[⟨0, false, .scalar 4 4⟩, ⟨2, false, .union 0⟩]], unions := [[(1, .table 0)]] }
                  { tables := [[⟨0, false, .scalar 4 4⟩, ⟨2, false, .union 0⟩, ⟨3, false, .string⟩]], unions := [[(1, .table 0), (2, .string)]] } := by
  refine ⟨?_, ?_⟩
  · intro t f hf
    match t with
    | 0 => simp [Schema.table] at hf ⊢; rcases hf with rfl | rfl <;> simp
    | t+1 => simp [Schema.table] at hf
  · intro u ty m h
    match u with
    | 0 =>
      simp only [Schema.union, List.getD, List.getElem?_cons_zero, Option.getD_some, lookupMember] at h ⊢
      split at h
      · rename_i e; simp [e, h]
      · simp at h
    | u+1 => simp [Schema.union, lookupMember] at h

end Flatcc.Verifier
