import FlatccModel.Clone
/-!
# C18 — clone / pick: the copy reads equal to the source; with a reference map shared objects are created once

Model: `Clone.lean` (the recursion of the generated `<T>_clone` / `<T>_vec_clone` / string, vector, struct clone with
`__flatbuffers_memoize_begin/_end`). Source: any partial map address ↦ (inline content, referenced addresses).
-/
namespace Flatcc.Clone

/-- **content.** Whatever was cloned into the builder before (any state that satisfies the invariant — in particular a fresh
one), with or without a reference map: a successful clone returns a reference `r` that is *bisimilar* to the source address
`a` — there is a relation containing (a, r) in which related objects carry the same inline content and have pairwise related
referents, in order. Every accessor path (field, element, union member, to any depth) therefore reads the same from the copy
as from the source. Objects created earlier are not touched (`Ext`). -/
theorem C18_clone_reads_equal (useMap : Bool) (src : Src) (fuel a r : Nat) (st st' : St)
    (hi : Inv src st) (h : clone useMap src fuel a st = some (r, st')) :
    (∃ R : Nat → Nat → Prop, Sim src st'.dst R ∧ R a r) ∧ Inv src st' ∧ Ext st st' := by
  obtain ⟨i, x, m⟩ := clone_spec useMap src fuel a st r st' hi h
  exact ⟨⟨_, i.1, m⟩, i, x⟩

theorem C18_clone_fresh (useMap : Bool) (src : Src) (fuel a r : Nat) (st' : St)
    (h : clone useMap src fuel a init = some (r, st')) :
    ∃ R : Nat → Nat → Prop, Sim src st'.dst R ∧ R a r :=
  (C18_clone_reads_equal useMap src fuel a r init st' (inv_init src) h).1

/-- **sharing.** With the reference map, on a source whose offsets point forward (every FlatBuffer), any sequence of clones into
one builder keeps: the map holds exactly the (source address, reference) pairs of the objects created, no source address
twice, and the number of objects created equals the number of distinct source addresses cloned — an object reachable by
several paths is emitted once and every path gets the same reference. -/
theorem C18_clone_shares (src : Src) (hf : Fwd src) (fuel a r : Nat) (st st' : St)
    (hi : InvS st) (h : clone true src fuel a st = some (r, st')) :
    st'.memo = st'.log ∧ (st'.log.map Prod.fst).Nodup ∧ st'.dst.length = st'.log.length :=
  (clone_share src hf fuel a st r st' hi h).1

/-- the reference returned for an address that was cloned before is the one stored then -/
theorem C18_clone_again_same_ref (src : Src) (fuel a r : Nat) (st : St) (h : lookup st.memo a = some r) :
    clone true src (fuel + 1) a st = some (r, st) := by
  simp [clone, h]

/-- without a reference map nothing is looked up or stored -/
theorem C18_clone_without_map (src : Src) (fuel a r : Nat) (st st' : St)
    (h : clone false src fuel a st = some (r, st')) : st'.memo = st.memo :=
  clone_nomap_memo src fuel a st r st' h

/-- **termination.** On a source whose offsets point forward and whose referents all exist below `bound` (what the verifier
establishes for an accepted buffer of `bound` bytes) the clone of any object succeeds with fuel `bound - a`; in particular
it terminates, whatever the sharing. -/
theorem C18_clone_terminates (useMap : Bool) (src : Src) (bound : Nat) (hf : Fwd src) (hc : Closed src bound)
    (a : Nat) (st : St) (ha : a < bound) (hs : (src a).isSome) :
    ∃ r st', clone useMap src (bound - a) a st = some (r, st') :=
  clone_total useMap src bound hf hc (bound - a) a st ha hs (by omega)

/-! Non-vacuity: a table (address 4) referring twice to one string (address 20) and to a vector (12) that refers to the same
string. With the map three objects are created, without it the string is created three times. -/
def demoSrc : Src := fun a =>
  if a = 4 then some ⟨[1], [20, 12, 20]⟩ else if a = 12 then some ⟨[2], [20]⟩ else if a = 20 then some ⟨[3], []⟩ else none

example : (clone true demoSrc 5 4 init).map (fun p => (p.1, p.2.dst.length, p.2.memo.length)) = some (2, 3, 3) := by decide
example : (clone false demoSrc 5 4 init).map (fun p => (p.1, p.2.dst.length, p.2.memo.length)) = some (4, 5, 0) := by decide
example : Fwd demoSrc := by
  intro a o h k hk
  unfold demoSrc at h
  split at h
  · injection h with h; subst h; simp at hk; omega
  · split at h
    · injection h with h; subst h; simp at hk; omega
    · split at h
      · injection h with h; subst h; simp at hk
      · simp at h

end Flatcc.Clone
