import FlatccModel.BuilderProofs
/-!
# C03 — build then read returns exactly what was written (table frame level)

`fs` is the sequence of `table_add` / `table_add_offset` calls between `start_table` and `end_table`
(any order of ids, each id at most once, as the API demands). `vtableBytes` / `tableImage` are the bytes
`end_table` emits; `vtLookup` is the reader's `__flatbuffers_read_vt`.
-/
namespace Flatcc.Props.C03
open Flatcc.Builder

/-- The API contract on one table: distinct ids, power-of-two alignments, and the 16-bit voffset range that
`end_table` asserts. -/
structure FrameOK (fs : List (Nat × FieldVal)) : Prop where
  nodup : (fs.map Prod.fst).Nodup
  pow2 : ∀ f ∈ fs, ∀ size align bytes, f.2 = .inl size align bytes → ∃ k, align = 2 ^ k
  vtRange : 2 * ((layoutTable fs).idEnd + 2) < 65536
  tRange : (layoutTable fs).data.length + 4 < 65536

theorem FrameOK.pos {fs : List (Nat × FieldVal)} (h : FrameOK fs) :
    ∀ f ∈ fs, ∀ size align bytes, f.2 = .inl size align bytes → 0 < align := by
  intro f hf size align bytes he
  obtain ⟨k, hk⟩ := h.pow2 f hf size align bytes he
  rw [hk]; exact Nat.pow_pos (by omega)

theorem FrameOK.align4 {fs : List (Nat × FieldVal)} (h : FrameOK fs) :
    4 ∣ max (layoutTable fs).align 4 ∧ max (layoutTable fs).align 4 = (layoutTable fs).align := by
  obtain ⟨k, hk, ha, _⟩ := layout_align fs h.pow2
  have : 4 ∣ (layoutTable fs).align := by
    rw [ha]; exact (show 4 = 2 ^ 2 by rfl) ▸ Nat.pow_dvd_pow 2 hk
  have h4 : 4 ≤ (layoutTable fs).align := Nat.le_of_dvd (by rw [ha]; exact Nat.pow_pos (by omega)) this
  rw [Nat.max_eq_left h4]; exact ⟨this, rfl⟩

theorem entry_of_field (fs : List (Nat × FieldVal)) (h : FrameOK fs) (f : Nat × FieldVal) (hf : f ∈ fs) :
    ∃ e, FieldOK (layoutTable fs) f.1 f.2 ∧ vtLookup (vtableBytes (layoutTable fs)) f.1 = e ∧ (f.1, e) ∈ (layoutTable fs).vs ∧ 4 ≤ e ∧
      e ≤ (layoutTable fs).data.length + 4 := by
  obtain ⟨hob, hall⟩ := layout_fields fs h.pos
  obtain ⟨hids, hlt⟩ := layout_ids fs
  have hok := hall f hf
  obtain ⟨e, hm, h4, hv⟩ := hok
  have hfind : vtEntryOf (layoutTable fs) f.1 = e := by
    unfold vtEntryOf
    rw [find_of_nodup _ _ _ hm (by rw [hids]; exact h.nodup)]
  have hle : e ≤ (layoutTable fs).data.length + 4 := by
    cases hv' : f.2 with
    | inl size align bytes => rw [hv'] at hv; have := hv.2.1; omega
    | off r => rw [hv'] at hv; have := hv.2.1; omega
  refine ⟨e, hall f hf, ?_, hm, h4, hle⟩
  rw [vtLookup_vtableBytes _ _ (hlt f hf) h.vtRange (by rw [hfind]; have := h.tRange; omega), hfind]

/-- **Inline fields (scalars, structs, fixed arrays, union types).** Whatever else is added to the table, in whatever
order, the reader's vtable lookup finds a non-zero entry for the field and the bytes at that entry are exactly the bytes
given (zero padded to the field size); the field's address is aligned to the field's alignment. -/
theorem C03_inline_field (s : BS) (fs : List (Nat × FieldVal)) (vtRef : Int) (h : FrameOK fs)
    (id size align : Nat) (bytes : List Nat) (hf : (id, FieldVal.inl size align bytes) ∈ fs) (hb : bytes.length ≤ size) :
    let t := layoutTable fs
    let e := vtLookup (vtableBytes t) id
    e ≠ 0 ∧ slice (tableImage s t vtRef) e size = bytes ++ zeros (size - bytes.length) ∧
      ((createTable s t vtRef).2 + e) % (align : Int) = 0 := by
  intro t e
  have hal : align ∣ max (layoutTable fs).align 4 := by
    rw [h.align4.2]
    exact (layout_align fs h.pow2).choose_spec.2.2 _ hf size align bytes rfl
  obtain ⟨e', hok, he, hm, h4, hle⟩ := entry_of_field fs h _ hf
  obtain ⟨hob, _⟩ := layout_fields fs h.pos
  obtain ⟨e2, hm2, h42, hv⟩ := hok
  -- the entry is unique
  have hids := (layout_ids fs).1
  have hu : e2 = e' := by
    have a := find_of_nodup _ _ _ hm (by rw [hids]; exact h.nodup)
    have b := find_of_nodup _ _ _ hm2 (by rw [hids]; exact h.nodup)
    rw [a] at b; simpa using b.symm
  subst hu
  simp only at hv
  obtain ⟨hmod, hlen, hsl, hdis⟩ := hv
  have hee : e = e2 := he
  refine ⟨by omega, ?_, ?_⟩
  · rw [hee, tableImage_slice s t vtRef e2 size h42 hob hlen, patchAll_untouched _ _ _ _ _ hob hdis, hsl]
    rw [List.take_of_length_le (by simp [zeros_length]; omega)]
  · rw [createTable_ref _ _ _ hob, hee]
    have ha := tableBase_aligned s t
    have hdv : (align : Int) ∣ ((max t.align 4 : Nat) : Int) := Int.natCast_dvd_natCast.mpr hal
    have h1 : (align : Int) ∣ tableBase s t + 4 := Int.dvd_trans hdv (Int.dvd_of_emod_eq_zero ha)
    have h2 : (align : Int) ∣ ((e2 - 4 : Nat) : Int) := Int.natCast_dvd_natCast.mpr (Nat.dvd_of_mod_eq_zero hmod)
    have : tableBase s t + ↑e2 = (tableBase s t + 4) + ((e2 - 4 : Nat) : Int) := by omega
    rw [this]
    exact Int.emod_eq_zero_of_dvd (Int.dvd_add h1 h2)

/-- **Absent fields.** A field id that was not added reads as absent (entry 0 — the reader returns the schema default
and `is_present` false), whether the id lies inside or beyond the emitted vtable. -/
theorem C03_absent_field (fs : List (Nat × FieldVal)) (h : FrameOK fs) (id : Nat) (hid : id ∉ fs.map Prod.fst) :
    vtLookup (vtableBytes (layoutTable fs)) id = 0 := by
  by_cases hlt : id < (layoutTable fs).idEnd
  · rw [vtLookup_vtableBytes _ _ hlt h.vtRange (by rw [vtEntryOf_absent _ _ (by rw [(layout_ids fs).1]; exact hid)]; omega)]
    exact vtEntryOf_absent _ _ (by rw [(layout_ids fs).1]; exact hid)
  · exact vtLookup_beyond _ _ (by omega) h.vtRange

/-- **Offset fields (strings, vectors, tables, union values).** The reader finds the field, and the stored 32-bit value is
the distance from the field's own address to the referenced object: `field address + value = reference`, for every object
created earlier (so the offset points forward and is non-zero). -/
theorem C03_offset_field (s : BS) (fs : List (Nat × FieldVal)) (vtRef : Int) (h : FrameOK fs)
    (id : Nat) (r : Int) (hf : (id, FieldVal.off r) ∈ fs)
    (hr : s.emitStart ≤ r) (hr2 : r - (createTable s (layoutTable fs) vtRef).2 < 4294967296) :
    let e := vtLookup (vtableBytes (layoutTable fs)) id
    let fieldAddr := (createTable s (layoutTable fs) vtRef).2 + e
    e ≠ 0 ∧ fieldAddr % 4 = 0 ∧ 0 < rd32 (tableImage s (layoutTable fs) vtRef) e ∧
      fieldAddr + rd32 (tableImage s (layoutTable fs) vtRef) e = r := by
  obtain ⟨e', hok, he, hm, h4, hle⟩ := entry_of_field fs h _ hf
  obtain ⟨hob, _⟩ := layout_fields fs h.pos
  obtain ⟨e2, hm2, h42, hv⟩ := hok
  have hids := (layout_ids fs).1
  have hu : e2 = e' := by
    have a := find_of_nodup _ _ _ hm (by rw [hids]; exact h.nodup)
    have b := find_of_nodup _ _ _ hm2 (by rw [hids]; exact h.nodup)
    rw [a] at b; simpa using b.symm
  subst hu
  simp only at hv
  obtain ⟨hmod, hlen, hmem, hdis⟩ := hv
  have hbase : (createTable s (layoutTable fs) vtRef).2 = tableBase s (layoutTable fs) := createTable_ref _ _ _ hob
  rw [hbase] at hr2
  simp only [he, hbase]
  have h4a := h.align4.1
  generalize layoutTable fs = t at *
  have hsl : slice (tableImage s t vtRef) e2 4 = patchVal (tableBase s t) (e2 - 4) r := by
    rw [tableImage_slice s t vtRef e2 4 h42 hob (by omega)]
    exact patchAll_patched _ _ _ _ _ hob (fun o ho => by
      rcases hdis o ho with h1 | h1 | h1
      · exact Or.inl h1
      · exact Or.inr (Or.inl h1)
      · exact Or.inr (Or.inr (by omega))) hmem
  have hbnd : tableBase s t + e2 < s.emitStart := by
    unfold tableBase; push_cast; omega
  have hval : u32 (r - tableBase s t - ((e2 - 4 : Nat) : Int) - 4) = (r - (tableBase s t + e2)).toNat := by
    unfold u32
    have : r - tableBase s t - ((e2 - 4 : Nat) : Int) - 4 = r - (tableBase s t + e2) := by omega
    rw [this, Int.emod_eq_of_lt (by omega) (by omega)]
  have hrd : rd32 (tableImage s t vtRef) e2 = (r - (tableBase s t + e2)).toNat := by
    rw [rd32_of_slice _ _ _ (by rw [hsl]; rfl) (by rw [hval]; omega)]
    exact hval
  have ha := tableBase_aligned s t
  have h4d : (4 : Int) ∣ tableBase s t + 4 := by
    have h1 : ((4 : Nat) : Int) ∣ ((max t.align 4 : Nat) : Int) := by
      exact Int.natCast_dvd_natCast.mpr h4a
    exact Int.dvd_trans h1 (Int.dvd_of_emod_eq_zero ha)
  refine ⟨by omega, by omega, by rw [hrd]; omega, by rw [hrd]; omega⟩

/-- **Strings.** The emitted object is: 32-bit length, the bytes (embedded NULs included), a zero terminator inside the
object; it starts 4-aligned. -/
theorem C03_string (s : BS) (d : List Nat) (hl : d.length < 4294967296) :
    let img := (createString s d).1.front
    rd32 img 0 = d.length ∧ slice img 4 d.length = d ∧ (img.drop (4 + d.length)).head? = some 0 ∧ (createString s d).2 % 4 = 0 := by
  refine ⟨?_, ?_, createString_terminated s d, createString_aligned s d⟩
  · apply rd32_of_slice _ _ _ _ hl
    simp [createString, emitFront_front, slice, le32]
  · simp only [createString, emitFront_front, List.append_assoc, slice]
    rw [List.drop_append, List.drop_eq_nil_of_le (by simp [le32_length]), List.nil_append]
    simp [le32_length]

/-- **Vectors.** 32-bit element count, then the elements exactly as given, first element aligned to max(align, 4). -/
theorem C03_vector (s : BS) (d : List Nat) (count align : Nat) (hc : count < 4294967296) :
    let img := (createVector s d count align).1.front
    rd32 img 0 = count ∧ slice img 4 d.length = d ∧ ((createVector s d count align).2 + 4) % ((max align 4 : Nat) : Int) = 0 := by
  refine ⟨?_, ?_, createVector_aligned s d count align⟩
  · apply rd32_of_slice _ _ _ _ hc
    simp [createVector, emitFront_front, slice, le32]
  · simp only [createVector, emitFront_front, List.append_assoc, slice]
    rw [List.drop_append, List.drop_eq_nil_of_le (by simp [le32_length]), List.nil_append]
    simp [le32_length]

/-! Non-vacuity: a concrete frame (fields added out of id order, an 8-aligned scalar after a byte) meets `FrameOK`. -/
def exFields : List (Nat × FieldVal) := [(2, .inl 1 1 [7]), (0, .off (-8)), (5, .inl 8 8 [1, 2, 3, 4, 5, 6, 7, 8])]
example : FrameOK exFields := by
  refine ⟨by decide, ?_, by decide, by decide⟩
  intro f hf size align bytes he
  simp only [exFields, List.mem_cons, List.mem_nil_iff, or_false] at hf
  rcases hf with h | h | h <;> subst h <;> simp at he
  · exact ⟨0, by omega⟩
  · exact ⟨3, by omega⟩
example : vtLookup (vtableBytes (layoutTable exFields)) 5 = 12 ∧ vtLookup (vtableBytes (layoutTable exFields)) 1 = 0 := by decide

end Flatcc.Props.C03
