import FlatccModel.Sortable
/-!
# C16 — "Recursive table sort sorts exactly the vectors marked sorted": which types get a sorter

`Flatcc.Sortable.markSortable` is `mark_sortable` of codegen_c_sorter.c (passes over all tables and unions in declaration order,
updating in place, until a pass reports the same count as the one before). The generated `<T>_sort` exists exactly for the marked
types, and descends exactly into members whose type is marked (tools/props/c16.py `sortable_stage` compares both with the
generated reader for random type graphs in random declaration orders). Proved here, for every type graph of any size, with cycles,
in any declaration order: the iteration terminates, and a type is marked iff a `sorted` vector can be reached from it — so no
sorted vector behind any chain of table / union / vector members is left out, and no sorter is generated that has nothing to sort.
-/
namespace Flatcc.Sortable

/-- `mark_sortable` terminates (within `#types + 2` passes), whatever the declaration order -/
theorem C16_sortable_terminates (ts : List Ty) : (markSortable ts).isSome = true :=
  markSortable_terminates ts

/-- a type is marked exactly when a `sorted` vector is reachable from it through non-deprecated members -/
theorem C16_sortable_iff_reach (ts : List Ty) (r : Marks) (h : markSortable ts = some r) :
    r.length = ts.length ∧ ∀ i, get r i = true ↔ Reach ts i :=
  markSortable_iff_reach ts r h

/-- the marks do not depend on the order of declaration: declaring the same types in another order (`p` renumbers, `q` is its
    inverse) marks the same types -/
theorem C16_sortable_order_independent (ts ts' : List Ty) (p q : Nat → Nat)
    (hqp : ∀ i, q (p i) = i)
    (hmap : ∀ i t, ts[i]? = some t → ts'[p i]? = some { direct := t.direct, refs := t.refs.map p })
    (hmap' : ∀ j t, ts'[j]? = some t → ts[q j]? = some { direct := t.direct, refs := t.refs.map q })
    (r r' : Marks) (h : markSortable ts = some r) (h' : markSortable ts' = some r') :
    ∀ i, get r' (p i) = get r i := by
  intro i
  have h1 := (markSortable_iff_reach ts r h).2 i
  have h2 := (markSortable_iff_reach ts' r' h').2 (p i)
  have h3 : Reach ts i ↔ Reach ts' (p i) :=
    ⟨reach_renumber ts ts' p hmap i, fun hr => by
      have := reach_renumber ts' ts q hmap' (p i) hr
      rwa [hqp] at this⟩
  rw [Bool.eq_iff_iff]
  exact h2.trans (h3.symm.trans h1.symm)

/-- the hypotheses are satisfiable by a non-trivial graph: a chain declared root first (one pass per level) and the same chain
    declared leaf first (one pass) -/
example : markSortable chainDown = some [true, true, true, true, false] ∧
    markSortable chainUp = some [false, true, true, true, true] := by decide

end Flatcc.Sortable
