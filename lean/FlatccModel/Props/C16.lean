import FlatccModel.ScanSwap
/-!
# C16 — in-place sort orders, find finds, scan scans

Property theorems over the model of the generated sort/find/scan text
(`Sort.lean`, `Find.lean`, `ScanSwap.lean`).  `lt x y` is the model of `D(x, y) < 0`.
-/
namespace Flatcc.Sort

variable {α : Type} [Inhabited α]

/-! ### sort -/

/-- the sorted vector is a permutation of the original elements … -/
theorem C16_sort_perm (lt : α → α → Bool) (a : Array α) : (heapSort lt a).Perm a :=
  heapSort_perm lt a

/-- … in non-decreasing key order, for every strict weak order (any length, any duplicates) -/
theorem C16_sort_sorted (lt : α → α → Bool) (O : StrictWeak lt) (a : Array α) :
    ∀ i j, i < j → j < (heapSort lt a).size → lt (heapSort lt a)[j]! (heapSort lt a)[i]! = false :=
  heapSort_sorted lt O a

theorem C16_sort_size (lt : α → α → Bool) (a : Array α) : (heapSort lt a).size = a.size :=
  (heapSort_perm lt a).size_eq

/-- sorting records by a key field: a strict weak order on keys induces one on records -/
theorem C16_key_order {κ : Type} (lt : κ → κ → Bool) (O : StrictWeak lt) (key : α → κ) :
    StrictWeak (fun x y => lt (key x) (key y)) :=
  ⟨fun x => O.irrefl _, fun x y z => O.trans _ _ _, fun x y z => O.ntrans _ _ _⟩


theorem C16_scalar_order : StrictWeak scalarLt := by
  refine ⟨?_, ?_, ?_⟩
  · intro x; unfold scalarLt scalarCmp; simp
  · intro x y z; unfold scalarLt scalarCmp
    simp only [decide_eq_true_eq]
    intro h1 h2
    split at h1 <;> split at h2 <;> (try split at h1) <;> (try split at h2) <;> (repeat' split) <;> omega
  · intro x y z; unfold scalarLt scalarCmp
    simp only [decide_eq_false_iff_not]
    intro h1 h2
    split at h1 <;> split at h2 <;> (try split at h1) <;> (try split at h2) <;> (repeat' split) <;> omega


theorem C16_string_order : StrictWeak stringLt := by
  refine ⟨?_, ?_, ?_⟩
  · intro x; unfold stringLt
    rw [stringNCmp_eq_lex _ _ x.2 x.2, lexCmp_refl]; simp
  · intro x y z; unfold stringLt
    rw [stringNCmp_eq_lex _ _ x.2 y.2, stringNCmp_eq_lex _ _ y.2 z.2, stringNCmp_eq_lex _ _ x.2 z.2]
    simp only [decide_eq_true_eq]
    intro h1 h2
    exact lexCmp_trans_lt _ _ _ h1 (by omega)
  · intro x y z; unfold stringLt
    rw [stringNCmp_eq_lex _ _ x.2 y.2, stringNCmp_eq_lex _ _ y.2 z.2, stringNCmp_eq_lex _ _ x.2 z.2]
    simp only [decide_eq_false_iff_not, Int.not_lt]
    intro h1 h2
    have a1 := lexCmp_antisymm x.1 y.1
    have a2 := lexCmp_antisymm y.1 z.1
    have a3 := lexCmp_antisymm x.1 z.1
    have := lexCmp_trans_le z.1 y.1 x.1 (by omega) (by omega)
    omega

/-- the comparator equals plain lexicographic byte order on such strings (high bytes compare unsigned) -/
theorem C16_string_cmp_is_lex (x y : List Nat) (hx : NulFree x) (hy : NulFree y) :
    stringNCmp x y = lexCmp x y := stringNCmp_eq_lex x y hx hy

/-- offset vectors (strings, tables): the swap exchanges the *targets* of two elements and changes
nothing else, so every element still points at an object it pointed at before (the buffer still
verifies, other values read the same). -/
theorem get_set (a : Array Nat) (i k x : Nat) (hi : i < a.size) :
    (a.setIfInBounds i x)[k]! = if k = i then x else a[k]! := by
  by_cases hk : k < a.size
  · rw [getElem!_pos (a.setIfInBounds i x) k (by simpa using hk), Array.getElem_setIfInBounds hk, getElem!_pos a k hk]
    by_cases e : i = k
    · subst e; simp
    · have : ¬ k = i := fun h => e h.symm
      simp [e, this]
  · have : k ≠ i := by omega
    rw [getElem!_neg (a.setIfInBounds i x) k (by simpa using hk), getElem!_neg a k hk]
    simp [this]

theorem C16_uoffset_swap_targets (v : Array Nat) (a b : Nat) (ha : a < v.size) (hb : b < v.size)
    (hfwd : ∀ i, i < v.size → 4 * v.size ≤ target v i ∧ target v i < 4294967296) :
    target (uoffsetSwap v a b) a = target v b ∧ target (uoffsetSwap v a b) b = target v a ∧
    (∀ k, k ≠ a → k ≠ b → (uoffsetSwap v a b)[k]! = v[k]!) ∧ (uoffsetSwap v a b).size = v.size := by
  have fa := hfwd a ha
  have fb := hfwd b hb
  unfold target at fa fb ⊢
  unfold uoffsetSwap
  simp only []
  refine ⟨?_, ?_, ?_, by simp⟩
  · rw [get_set _ b a _ (by simpa using hb), get_set _ a a _ ha]
    by_cases hab : a = b
    · subst hab; simp only [if_true]; omega
    · simp only [hab, if_false, if_true]; omega
  · rw [get_set _ b b _ (by simpa using hb)]
    simp only [if_true]; omega
  · intro k hka hkb
    rw [get_set _ b k _ (by simpa using hb), get_set _ a k _ ha]
    simp [hka, hkb]

/-! ### find (on a vector sorted by the key) -/

/-- a vector sorted by scalar key makes the probe comparison monotone, for every search key -/
theorem C16_sorted_mono (keys : Array Int) (k : Int)
    (hs : ∀ i j, i < j → j < keys.size → scalarLt keys[j]! keys[i]! = false) :
    Mono (fun i => scalarCmp keys[i]! k) keys.size := by
  intro i j hij hj
  by_cases e : i = j
  · subst e; exact Int.le_refl _
  · have := hs i j (by omega) hj
    show scalarCmp keys[i]! k ≤ scalarCmp keys[j]! k
    unfold scalarLt scalarCmp at this
    simp only [decide_eq_false_iff_not] at this
    unfold scalarCmp
    repeat' split
    all_goals (try omega)
    all_goals (split at this <;> (try split at this) <;> omega)

/-- find returns the lowest index holding the key … -/
theorem C16_find_lowest (cmp : Nat → Int) (len : Nat) (hm : Mono cmp len) (i : Nat)
    (h : find cmp len = some i) : i < len ∧ cmp i = 0 ∧ ∀ j, j < i → cmp j ≠ 0 :=
  find_some cmp len hm i h

/-- … and not-found only if no element holds it -/
theorem C16_find_not_found (cmp : Nat → Int) (len : Nat) (hm : Mono cmp len)
    (h : find cmp len = none) : ∀ j, j < len → cmp j ≠ 0 :=
  find_none cmp len hm h

/-! ### scan / rscan over any sub-range (no sortedness needed) -/

/-- scan returns the first matching index in `[begin, min(end, len))` … -/
theorem C16_scan_first (cmp : Nat → Int) (len b e r : Nat) (h : scan cmp len b e = some r) :
    b ≤ r ∧ r < e ∧ r < len ∧ cmp r = 0 ∧ ∀ j, b ≤ j → j < r → cmp j ≠ 0 := by
  unfold scan at h
  obtain ⟨h1, h2, h3, h4⟩ := scanLoop_some cmp _ _ _ _ h
  exact ⟨h1, by omega, by omega, h3, h4⟩

/-- … or not-found exactly when the range holds no match (incl. `begin ≥ end`, `end > len`, the `end` sentinel) -/
theorem C16_scan_not_found (cmp : Nat → Int) (len b e : Nat) (h : scan cmp len b e = none) :
    ∀ j, b ≤ j → j < e → j < len → cmp j ≠ 0 := by
  unfold scan at h
  intro j h1 h2 h3
  exact scanLoop_none cmp _ _ _ (Nat.le_refl _) h j h1 (by omega)

/-- rscan returns the last matching index in the range … -/
theorem C16_rscan_last (cmp : Nat → Int) (len b e r : Nat) (h : rscan cmp len b e = some r) :
    b ≤ r ∧ r < e ∧ r < len ∧ cmp r = 0 ∧ ∀ j, r < j → j < e → j < len → cmp j ≠ 0 := by
  unfold rscan at h
  obtain ⟨h1, h2, h3, h4⟩ := rscanLoop_some cmp b _ _ h
  exact ⟨h1, by omega, by omega, h3, fun j hj1 hj2 hj3 => h4 j hj1 (by omega)⟩

theorem C16_rscan_not_found (cmp : Nat → Int) (len b e : Nat) (h : rscan cmp len b e = none) :
    ∀ j, b ≤ j → j < e → j < len → cmp j ≠ 0 := by
  unfold rscan at h
  intro j h1 h2 h3
  exact rscanLoop_none cmp b _ h j h1 (by omega)

/-! ### non-vacuity -/
set_option maxRecDepth 8000 in
example : (heapSort scalarLt #[5, -3, 9, 1, 1]).toList = [-3, 1, 1, 5, 9] := by decide
example : find (fun i => scalarCmp (#[1, 3, 3, 3, 9][i]!) 3) 5 = some 1 := by decide
example : scan (fun i => scalarCmp (#[3, 1, 3, 9][i]!) 3) 4 1 18446744073709551615 = some 2 := by decide
example : rscan (fun i => scalarCmp (#[3, 1, 3, 9][i]!) 3) 4 0 2 = some 0 := by decide
example : (uoffsetSwap #[100, 200, 300] 0 2).toList = [308, 200, 92] := by decide

end Flatcc.Sort
