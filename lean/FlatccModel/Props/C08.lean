import FlatccModel.SchemaNum
/-!
# C08 — schema numeric literals are accepted iff representable and mean what they say (integer part)
-/
namespace Flatcc.SchemaNum
open Flatcc.Num

/-- what coercion does to an unsigned literal value `u < 2^64`: accepted exactly when `u` is in the type's range, unchanged -/
theorem coerce_uint (st : STy) (hst : st ≠ .bool) (u : Nat) (hu : u < 18446744073709551616) (v : Int) :
    (coerce false st (.uint u)).bind valInt = some v ↔ ((u : Int) ≤ (range st).2 ∧ v = u) := by
  unfold coerce normInt normBool
  cases st <;> simp only [unsignedT, signedT, longT, range] <;> (try exact absurd rfl hst) <;>
    (split <;> simp [Option.bind, valInt] <;> omega)

/-- … and to a negative value `-2^63 ≤ i < 0`: accepted exactly when the type is signed and `i` is in range -/
theorem coerce_neg (st : STy) (hst : st ≠ .bool) (i : Int) (hi : i < 0) (hlo : -9223372036854775808 ≤ i) (v : Int) :
    (coerce false st (.int i)).bind valInt = some v ↔ ((range st).1 ≤ i ∧ v = i) := by
  unfold coerce normInt normBool
  have hn : ¬ i ≥ 0 := by omega
  cases st <;> simp only [hn, if_false, unsignedT, signedT, longT, range] <;> (try exact absurd rfl hst) <;>
    (first | (split <;> simp [Option.bind, valInt] <;> omega) | (simp [Option.bind, valInt] <;> omega))

theorem range_lo_nonpos (st : STy) : (range st).1 ≤ 0 := by cases st <;> simp [range]
theorem range_hi_nonneg (st : STy) : 0 ≤ (range st).2 := by cases st <;> simp [range]
theorem range_hi_le (st : STy) : (range st).2 ≤ 18446744073709551615 := by cases st <;> simp [range]
theorem range_lo_ge (st : STy) : -9223372036854775808 ≤ (range st).1 := by cases st <;> simp [range]

theorem digitLoop_full (ds : List Nat) (hd : AllDigits ds) :
    (decval ds < 18446744073709551616 ∧ digitLoop ds 0 0 = (some (decval ds), ds.length)) ∨
    (decval ds ≥ 18446744073709551616 ∧ (digitLoop ds 0 0).1 = none) := by
  have := digitLoop_spec ds hd [] (fun c cs e => by simp at e) 0 0 (by omega)
  simpa [decval_eq_valFrom] using this

/-- unsigned decimal literals: accepted iff representable, and then with exactly their value — every
integer type, every digit string of any length (no wrap for 20+ digits, no truncation) -/
theorem C08_dec_unsigned_iff (st : STy) (hst : st ≠ .bool) (ds : List Nat) (hd : AllDigits ds) (hne : ds ≠ []) (v : Int) :
    acceptLit false st (.dec false ds) = some v ↔ Representable st (litValue (.dec false ds)) ∧ v = litValue (.dec false ds) := by
  unfold acceptLit readLit litValue Representable
  simp only [Bool.false_eq_true, if_false]
  have hlo := range_lo_nonpos st
  have hhi := range_hi_le st
  rcases digitLoop_full ds hd with ⟨hlt, hl⟩ | ⟨hge, hl⟩
  · rw [hl]
    simp only [ne_eq, not_true_eq_false, hne, or_self, if_false]
    rw [coerce_uint st hst _ hlt]
    constructor
    · intro h; exact ⟨⟨by omega, h.1⟩, h.2⟩
    · intro h; exact ⟨h.1.2, h.2⟩
  · generalize digitLoop ds 0 0 = r at hl
    obtain ⟨r1, r2⟩ := r
    simp only at hl
    subst hl
    simp only []
    constructor
    · intro h; contradiction
    · intro h; omega

/-- negative decimal literals with magnitude up to 2^63 (see `C08_sign_wrap_counterexample` for the rest) -/
theorem C08_dec_negative_partial (st : STy) (hst : st ≠ .bool) (ds : List Nat) (hd : AllDigits ds) (hne : ds ≠ [])
    (hmag : decval ds ≤ 9223372036854775808) (v : Int) :
    acceptLit false st (.dec true ds) = some v ↔ Representable st (litValue (.dec true ds)) ∧ v = litValue (.dec true ds) := by
  unfold acceptLit readLit litValue Representable
  simp only [if_true]
  have hlo := range_lo_nonpos st
  have hhi := range_hi_nonneg st
  rcases digitLoop_full ds hd with ⟨hlt, hl⟩ | ⟨hge, hl⟩
  · rw [hl]
    simp only [ne_eq, not_true_eq_false, hne, or_self, if_false]
    by_cases hz : decval ds = 0
    · -- "-0": read as int 0, normalised to uint 0
      have e : toI64 ((18446744073709551616 - decval ds) % 18446744073709551616) = 0 := by
        rw [hz]; unfold toI64; simp
      rw [e]
      have h0 : (coerce false st (.int 0)).bind valInt = (coerce false st (.uint 0)).bind valInt := by
        unfold coerce normInt; simp
      rw [h0, coerce_uint st hst 0 (by omega), hz]
      constructor
      · intro h; exact ⟨⟨by omega, by omega⟩, by omega⟩
      · intro h; exact ⟨by omega, by omega⟩
    · have e : toI64 ((18446744073709551616 - decval ds) % 18446744073709551616) = -(decval ds : Int) := by
        unfold toI64
        have : (18446744073709551616 - decval ds) % 18446744073709551616 = 18446744073709551616 - decval ds := by
          apply Nat.mod_eq_of_lt; omega
        rw [this]
        split <;> omega
      rw [e, coerce_neg st hst _ (by omega) (by omega)]
      constructor
      · intro h; exact ⟨⟨h.1, by omega⟩, h.2⟩
      · intro h; exact ⟨h.1.1, h.2⟩
  · omega

/-- KNOWN FINDING (sign wrap): a negative literal of magnitude above 2^63 changes sign silently —
`-9223372036854775809` is accepted for a `long` field as `+9223372036854775807` -/
theorem C08_sign_wrap_counterexample :
    acceptLit false .long (.dec true [57,50,50,51,51,55,50,48,51,54,56,53,52,55,55,53,56,48,57]) = some 9223372036854775807 := by
  decide

/-- hex literals (1..16 digits): accepted iff representable, with exactly their value -/
theorem C08_hex_unsigned_iff (st : STy) (hst : st ≠ .bool) (ds : List Nat) (hne : ds ≠ []) (hlen : ds.length ≤ 16)
    (hv : hexVal ds < 18446744073709551616) (v : Int) :
    acceptLit false st (.hex false ds) = some v ↔ Representable st (litValue (.hex false ds)) ∧ v = litValue (.hex false ds) := by
  unfold acceptLit readLit litValue Representable
  have : ¬ (ds = [] ∨ ds.length > 16) := by
    intro h; rcases h with h | h
    · exact hne h
    · omega
  simp only [this, Bool.false_eq_true, if_false]
  have hlo := range_lo_nonpos st
  rw [coerce_uint st hst _ hv]
  constructor
  · intro h; exact ⟨⟨by omega, h.1⟩, h.2⟩
  · intro h; exact ⟨h.1.2, h.2⟩

/-- enum auto-numbering: a member without initializer gets the previous value + 1, and the result
is representable in the underlying type — otherwise the enum is rejected (incl. ulong/long at their maximum) -/
theorem C08_enum_auto (st : STy) (hst : st ≠ .bool) (pv : Val) (p : Int) (hp : valInt pv = some p)
    (hpr : (∃ u, pv = .uint u ∧ u < 18446744073709551616) ∨ (∃ i, pv = .int i ∧ i < 0 ∧ -9223372036854775808 ≤ i))
    (rest : List (Option Val)) (i : Int) (r : List Int)
    (h : enumValues st (some pv) (none :: rest) = some (i :: r)) :
    i = p + 1 ∧ Representable st i := by
  have hlo := range_lo_nonpos st
  have hhi := range_hi_nonneg st
  -- generic tail: whatever index `v` was chosen, the head of the result is its coerced value
  have tail : ∀ v, (match coerce false st v with
      | none => none
      | some v' => match valInt v', enumValues st (some v') rest with
        | some i, some r => some (i :: r)
        | _, _ => none) = some (i :: r) → (coerce false st v).bind valInt = some i := by
    intro v hv
    cases hco : coerce false st v with
    | none => simp [hco] at hv
    | some v' =>
      simp only [hco] at hv
      cases hvi : valInt v' with
      | none => simp [hvi] at hv
      | some iv =>
        cases hr : enumValues st (some v') rest with
        | none => simp [hvi, hr] at hv
        | some rr =>
          simp only [hvi, hr] at hv
          injection hv with hv; injection hv with h1 h2
          simp [Option.bind, hvi, h1]
  unfold enumValues at h
  rcases hpr with ⟨u, rfl, hu⟩ | ⟨j, rfl, hj, hjl⟩
  · simp only [valInt] at hp; injection hp with hp; subst hp
    simp only [] at h
    split at h
    · contradiction
    · rename_i v' hmax
      split at hmax
      · contradiction
      rename_i hnmax
      injection hmax with hmax
      subst hmax
      have hc := tail _ h
      by_cases hu2 : u + 1 < 18446744073709551616
      · rw [coerce_uint st hst (u + 1) hu2] at hc
        exact ⟨by omega, by omega, by omega⟩
      · have hu3 : u = 18446744073709551615 := by omega
        subst hu3
        exfalso
        cases st <;> simp_all [coerce, normInt, normBool, unsignedT, signedT, longT, Option.bind]
  · simp only [valInt] at hp; injection hp with hp; subst hp
    simp only [] at h
    split at h
    · contradiction
    · rename_i v' hmax
      split at hmax
      · contradiction
      injection hmax with hmax
      subst hmax
      have hc := tail _ h
      by_cases hj1 : j + 1 < 0
      · rw [coerce_neg st hst (j + 1) hj1 (by omega)] at hc
        exact ⟨by omega, by omega, by omega⟩
      · have hj0 : j + 1 = 0 := by omega
        have h0 : (coerce false st (.int (j + 1))).bind valInt = (coerce false st (.uint 0)).bind valInt := by
          rw [hj0]; unfold coerce normInt; simp
        rw [h0, coerce_uint st hst 0 (by omega)] at hc
        exact ⟨by omega, by omega, by omega⟩

example : acceptLit false .ubyte (.dec false [50, 53, 53]) = some 255 := by decide
example : acceptLit false .ubyte (.dec false [50, 53, 54]) = none := by decide
example : acceptLit false .int (.dec false [49,56,52,52,54,55,52,52,48,55,51,55,48,57,53,53,49,54,49,53]) = none := by decide
example : enumValues .ulong none [some (.uint 18446744073709551615), none] = none := by decide


/-! ## bit_flags enums -/

/-- head of an accepted `bit_flags` member list: the chosen position `v` is below the bit width and the member's value is
the coerced `2 ^ position` -/
theorem enumFlagValues_head (st : STy) (prev : Option Val) (m : Option Val) (rest : List (Option Val)) (i : Int) (r : List Int)
    (h : enumFlagValues st prev (m :: rest) = some (i :: r)) :
    ∃ v, valU v < bitsOf st ∧ (coerce false st (.uint (2 ^ valU v))).bind valInt = some i ∧
      enumFlagValues st (some v) rest = some r ∧
      (m = none → prev = none → v = .int 0) ∧ (∀ u, m = some (.uint u) → v = .uint u) := by
  unfold enumFlagValues at h
  simp only [] at h
  split at h
  · contradiction
  · rename_i v hidx
    split at h
    · contradiction
    · rename_i hlt
      split at h
      · contradiction
      · rename_i v' hco
        cases hvi : valInt v' with
        | none => simp [hvi] at h
        | some iv =>
          cases hr : enumFlagValues st (some v) rest with
          | none => simp [hvi, hr] at h
          | some rr =>
            simp only [hvi, hr] at h
            injection h with h; injection h with h1 h2
            refine ⟨v, by omega, by simp [hco, Option.bind, hvi, h1], by rw [hr, h2], ?_, ?_⟩
            · intro hm hp; subst hm; subst hp; simp at hidx; exact hidx.symm
            · intro u hm; subst hm; simp at hidx; exact hidx.symm

/-- **bit_flags.** In an accepted `bit_flags` enum every member's value is exactly `2 ^ p` for a position `p` below the bit
width of the underlying type, and that value is representable in the type (so the sign bit of a signed type is refused);
nothing wraps or aliases another flag. -/
theorem C08_bitflags (st : STy) (hst : st ≠ .bool) : ∀ (ms : List (Option Val)) (prev : Option Val) (vs : List Int),
    enumFlagValues st prev ms = some vs →
    ∀ x ∈ vs, ∃ p, p < bitsOf st ∧ x = (2 ^ p : Nat) ∧ Representable st x := by
  intro ms
  induction ms with
  | nil => intro prev vs h; unfold enumFlagValues at h; injection h with h; subst h; intro x hx; simp at hx
  | cons m rest ih =>
    intro prev vs h
    cases vs with
    | nil =>
      exfalso
      unfold enumFlagValues at h
      simp only [] at h
      repeat (first | contradiction | split at h)
      all_goals simp at h
    | cons i r =>
      obtain ⟨v, hlt, hco, hrest, _, _⟩ := enumFlagValues_head st prev m rest i r h
      intro x hx
      rcases List.mem_cons.mp hx with rfl | hx
      · have hb : bitsOf st ≤ 64 := by cases st <;> simp [bitsOf]
        have hp : 2 ^ valU v < 18446744073709551616 := by
          have : 2 ^ valU v < 2 ^ 64 := Nat.pow_lt_pow_right (by omega) (by omega)
          simpa using this
        rw [coerce_uint st hst _ hp] at hco
        refine ⟨valU v, hlt, hco.2, ?_⟩
        have := range_lo_nonpos st
        constructor
        · rw [hco.2]; have : (0 : Int) ≤ ((2 ^ valU v : Nat) : Int) := Int.natCast_nonneg _; omega
        · rw [hco.2]; exact hco.1
      · exact ih (some v) r hrest x hx

/-- the position just past the width is refused for every underlying type, explicitly or by auto-numbering -/
example : enumFlagValues .ulong none [some (.uint 0), some (.uint 64)] = none := by decide
example : enumFlagValues .ulong none [some (.uint 63), none] = none := by decide
example : enumFlagValues .ulong none [some (.uint 63)] = some [9223372036854775808] := by decide
example : enumFlagValues .long none [some (.uint 63)] = none := by decide
example : enumFlagValues .ubyte none [none, none, some (.uint 7)] = some [1, 2, 128] := by decide
example : enumFlagValues .byte none [some (.uint 7)] = none := by decide

/-! ### force_align -/

/-- the permitted alignments: the powers of two up to `FLATCC_FORCE_ALIGN_MAX` (regenerated from config.h: 256) -/
def alignValues : List Nat := [1, 2, 4, 8, 16, 32, 64, 128, 256]

/-- the whole finite table 0..256, evaluated by the kernel (no axioms beyond the usual three) -/
theorem validAlign_small : ∀ a, a ≤ 256 → (isValidAlign a = true ↔ a ∈ alignValues) := by decide +kernel

/-- `is_valid_align` accepts exactly the powers of two 1..256, for every 64-bit (indeed every) value -/
theorem C08_valid_align (a : Nat) : isValidAlign a = true ↔ a ∈ alignValues := by
  by_cases h : a ≤ 256
  · exact validAlign_small a h
  · constructor
    · intro hv
      unfold isValidAlign at hv
      have : a > Flatcc.Consts.forceAlignMax := by show a > 256; omega
      simp [this] at hv
    · intro hm
      unfold alignValues at hm
      simp only [List.mem_cons, List.mem_nil_iff, or_false] at hm
      omega

/-- `force_align: <literal>` is accepted iff the literal is an unsigned integer whose VALUE is a permitted alignment not below the
natural alignment of the members, and the struct is then aligned to exactly that value — no narrowing of the literal before the test -/
theorem C08_force_align (l : Lit) (natural a : Nat) :
    forceAlign l natural = some a ↔ readLit l = .uint a ∧ a ∈ alignValues ∧ natural ≤ a := by
  unfold forceAlign
  cases h : readLit l with
  | uint u =>
    simp only []
    constructor
    · intro hs
      split at hs
      · next hc =>
        injection hs with hs; subst hs
        simp only [Bool.and_eq_true, decide_eq_true_eq] at hc
        exact ⟨rfl, (C08_valid_align u).mp hc.1, hc.2⟩
      · cases hs
    · intro ⟨he, hm, hn⟩
      injection he with he; subst he
      have hv := (C08_valid_align u).mpr hm
      simp [hv, hn]
  | int i => simp
  | bool b => simp
  | invalid => simp

/-- values whose low 16 bits are a permitted alignment are still refused -/
example : forceAlign (.dec false [54, 53, 53, 53, 50]) 4 = none := by decide      -- 65552 = 2^16 + 16
example : forceAlign (.dec false [49, 54]) 4 = some 16 := by decide
example : forceAlign (.dec false [50]) 4 = none := by decide                      -- below the natural alignment
example : forceAlign (.dec false [53, 49, 50]) 4 = none := by decide              -- 512 > FLATCC_FORCE_ALIGN_MAX

end Flatcc.SchemaNum
