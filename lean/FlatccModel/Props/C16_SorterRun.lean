import FlatccModel.SorterRun
/-!
# C16 — "Recursive table sort sorts exactly the vectors marked sorted": what the chain of sorters does

`Flatcc.Sortable.sortVal S st mk` runs the generated sorters on a value: `mk` = which types have a `<T>_sort` (members whose
type has none are skipped), `st` = the in-place sort of one vector (C16's heap sort theorems are about that function).
`sortVal S st (fun _ => true)` is the sorter that skips nothing: it reaches every non-deprecated member at every depth.
tools/props/c16.py `sortable_stage` compares the generated sorter bodies (own `sorted` members, members descended into) with
exactly these rules.
-/
namespace Flatcc.Sortable

/-- skipping an unmarked member loses nothing: below a type without a sorter there is no vector marked sorted at all, however
    deep and through whatever chain of tables, unions and vectors -/
theorem C16_unmarked_has_nothing_to_sort (ts : List Ty) (r : Marks) (h : markSortable ts = some r) (i : Nat)
    (hi : get r i = false) : ∀ j t, Path ts i j → ts[j]? = some t → t.direct = false := by
  intro j t hp hj
  cases hd : t.direct with
  | false => rfl
  | true =>
    have := ((markSortable_iff_reach ts r h).2 i).mpr (reach_of_path hp hj hd)
    rw [hi] at this; cases this

/-- and no sorter is idle: from every marked type some chain of members leads to a type with a vector marked sorted -/
theorem C16_marked_has_something_to_sort (ts : List Ty) (r : Marks) (h : markSortable ts = some r) (i : Nat)
    (hi : get r i = true) : ∃ j t, Path ts i j ∧ ts[j]? = some t ∧ t.direct = true :=
  path_of_reach (((markSortable_iff_reach ts r h).2 i).mp hi)

/-- with the marks of `mark_sortable`, the generated sorters do to every value of the declared shape exactly what the sorter that
    descends into every non-deprecated member does: every non-deprecated vector marked sorted, at any depth below the root, behind
    any chain of table members, unions, table vectors and union vectors, is handed to the vector sort -/
theorem C16_recursive_sort_reaches_all (S : Schema) (st : Val → Val) (r : Marks)
    (h : markSortable (S.map toTy) = some r) (v : Val) (t : Nat) (hc : confVal S t v = true) :
    sortVal S st (get r) v = sortVal S st (fun _ => true) v :=
  skip_eq_val S st (get r) (marksOK_of_markSortable S r h) v t hc

/-- nothing but the vectors marked sorted is touched: a sorter whose vector sort is the identity is the identity (for any marks) -/
theorem C16_recursive_sort_touches_only_sorted (S : Schema) (mk : Nat → Bool) (v : Val) :
    sortVal S (fun x => x) mk v = v :=
  sort_id_val S mk v

/-- a union between the root and the sorted vector, the parent declared first; a deprecated sorted vector and an unmarked sibling
    stay as they are -/
def demoS : Schema :=
  [ [⟨false, false, some 1⟩, ⟨false, false, some 3⟩],       -- table Root { u:U; p:Plain; }
    [⟨false, false, some 2⟩],                               -- union U { D }
    [⟨false, true, none⟩, ⟨true, true, none⟩, ⟨false, false, none⟩],  -- table D { v:[int](sorted); w:[int](sorted, deprecated); x:[int]; }
    [⟨false, false, none⟩] ]                                -- table Plain { x:[int]; }
def ins (a : Int) : List Int → List Int
  | [] => [a]
  | b :: bs => if a ≤ b then a :: b :: bs else b :: ins a bs
def demoSt : Val → Val
  | .leaf xs => .leaf (xs.foldr ins [])
  | v => v
def demoV : Val :=
  .node 0 [.node 1 [.node 2 [.leaf [3, 1, 2], .leaf [9, 8], .leaf [7, 6]]], .node 3 [.leaf [5, 4]]]
example : markSortable (demoS.map toTy) = some [true, true, true, false] := by decide
example : confVal demoS 0 demoV = true := by decide
example : sortVal demoS demoSt (get [true, true, true, false]) demoV =
    .node 0 [.node 1 [.node 2 [.leaf [1, 2, 3], .leaf [9, 8], .leaf [7, 6]]], .node 3 [.leaf [5, 4]]] := by rfl

end Flatcc.Sortable
