import FlatccModel.Sort
/-! Calibration: generated `__flatbuffers_find_by_field` (lowest matching index) and scan / rscan. -/
namespace Flatcc.Sort

variable {α : Type}

/-- `cmp x` = D(elem, key): negative / zero / positive as Int. The loop of `find_by_field`
    on indices [a, b] (b inclusive), fuel-bounded. -/
def findLoop (cmp : Nat → Int) : Nat → Nat → Nat → Nat × Nat
  | 0, a, b => (a, b)
  | fuel+1, a, b =>
    if a < b then
      let m := a + ((b - a) / 2)
      if cmp m < 0 then findLoop cmp fuel (m + 1) b else findLoop cmp fuel a m
    else (a, b)

/-- returns some index or none (= not_found) -/
def find (cmp : Nat → Int) (len : Nat) : Option Nat :=
  if len = 0 then none else
  let r := findLoop cmp len 0 (len - 1)
  if r.1 = r.2 then (if cmp r.1 = 0 then some r.1 else none) else none

/-- vector sorted w.r.t. the key: cmp is monotone non-decreasing in the index -/
def Mono (cmp : Nat → Int) (len : Nat) : Prop := ∀ i j, i ≤ j → j < len → cmp i ≤ cmp j

theorem findLoop_spec (cmp : Nat → Int) (len : Nat) (hm : Mono cmp len) :
    ∀ fuel a b, a ≤ b → b < len → b - a < fuel + 1 →  -- enough fuel: halving
      (∀ i, i < a → cmp i < 0) → (∀ i, b < i → i < len → 0 ≤ cmp i) → (b + 1 = len ∨ 0 ≤ cmp b) →
      let r := findLoop cmp fuel a b
      (fuel ≥ b - a → r.1 = r.2) ∧ r.1 ≤ r.2 ∧ r.2 < len ∧
      (∀ i, i < r.1 → cmp i < 0) ∧ (∀ i, r.2 < i → i < len → 0 ≤ cmp i) ∧ (r.2 + 1 = len ∨ 0 ≤ cmp r.2) := by
  intro fuel
  induction fuel with
  | zero =>
    intro a b hab hb hf h1 h2 h3
    simp only [findLoop]
    exact ⟨fun h => by omega, hab, hb, h1, h2, h3⟩
  | succ fuel ih =>
    intro a b hab hb hf h1 h2 h3
    unfold findLoop
    split
    · rename_i hlt
      simp only []
      split
      · rename_i hneg
        have := ih (a + (b - a) / 2 + 1) b (by omega) hb (by omega)
          (fun i hi => by
            by_cases c : i < a
            · exact h1 i c
            · have := hm i (a + (b - a) / 2) (by omega) (by omega); omega)
          h2 h3
        simp only [] at this
        exact ⟨fun h => this.1 (by omega), this.2⟩
      · rename_i hnn
        have := ih a (a + (b - a) / 2) (by omega) (by omega) (by omega) h1
          (fun i hi hl => by
            by_cases c : b < i
            · exact h2 i c hl
            · have := hm (a + (b - a) / 2) i (by omega) hl; omega)
          (Or.inr (by omega))
        simp only [] at this
        exact ⟨fun h => this.1 (by omega), this.2⟩
    · exact ⟨fun _ => by omega, hab, hb, h1, h2, h3⟩

theorem find_char (cmp : Nat → Int) (len : Nat) (hm : Mono cmp len) (h0 : len ≠ 0) :
    ∃ r, r < len ∧ (∀ i, i < r → cmp i < 0) ∧ (∀ i, r < i → i < len → 0 ≤ cmp i) ∧ (r + 1 = len ∨ 0 ≤ cmp r) ∧
      find cmp len = if cmp r = 0 then some r else none := by
  have sp := findLoop_spec cmp len hm len 0 (len - 1) (by omega) (by omega) (by omega)
    (fun i hi => by omega) (fun i hi hl => by omega) (Or.inl (by omega))
  simp only [] at sp
  obtain ⟨e, _, hlt, hlo, hhi, hlast⟩ := sp
  have e := e (by omega)
  refine ⟨(findLoop cmp len 0 (len - 1)).1, by omega, hlo, ?_, ?_, ?_⟩
  · intro i hi hl; exact hhi i (by omega) hl
  · rw [e]; exact hlast
  · unfold find
    simp only [h0, if_false, e, if_true]

/-- C16 (find): on a sorted vector `find` returns the LOWEST index whose key matches … -/
theorem find_some (cmp : Nat → Int) (len : Nat) (hm : Mono cmp len) (i : Nat) (h : find cmp len = some i) :
    i < len ∧ cmp i = 0 ∧ ∀ j, j < i → cmp j ≠ 0 := by
  by_cases h0 : len = 0
  · unfold find at h; simp [h0] at h
  · obtain ⟨r, hr, hlo, hhi, _, hf⟩ := find_char cmp len hm h0
    rw [hf] at h
    split at h
    · rename_i hz
      injection h with h; subst h
      exact ⟨hr, hz, fun j hj => by have := hlo j hj; omega⟩
    · contradiction

/-- … and not_found only when no element matches. -/
theorem find_none (cmp : Nat → Int) (len : Nat) (hm : Mono cmp len) (h : find cmp len = none) :
    ∀ j, j < len → cmp j ≠ 0 := by
  by_cases h0 : len = 0
  · intro j hj; omega
  · obtain ⟨r, hr, hlo, hhi, hlast, hf⟩ := find_char cmp len hm h0
    rw [hf] at h
    split at h
    · contradiction
    · rename_i hz
      intro j hj
      by_cases c : j < r
      · have := hlo j c; omega
      · by_cases c2 : j = r
        · rw [c2]; exact hz
        · have h2 := hm r j (by omega) hj
          rcases hlast with hl | hl
          · omega
          · omega

end Flatcc.Sort
