/-!
# base64: `include/flatcc/portable/pbase64.h` and its two users in the JSON runtime

* `encodedSize` / `decodedSize`  = `base64_encoded_size` / `base64_decoded_size`
* `encode`                       = what `base64_encode(dst, src, 0, &src_len, mode)` writes
* `decodeLim dstLen` / `decode`  = `base64_decode(dst, src, &dst_len, &src_len, mode)` (`decode` = `dst_len` 0 = unlimited)
* `printRooms` / `printChunks`   = the chunking loop of `json_printer.c: print_uint8_vector_base64_object`
* `parseBase64`                  = the decode part of `json_parser.c: flatcc_json_parser_build_uint8_vector_base64`

Bytes are `Nat`s below 256, modes are the C `int` values (`base64_mode_rfc4648 = 0`, `base64_mode_url = 1`,
`base64_dec_modifier_skipspace = 32`, `base64_enc_modifier_padding = 128`, `base64_modifier_mask = 224`).
C shifts and masks on `uint8_t` operands are written arithmetically:
`x >> k = x / 2^k`, `(x << 4) & 0x30 = x % 4 * 16`, `(x << 2) & 0x3c = x % 16 * 4`, `x & 0x3f = x % 64`,
`(uint8_t)((a << k) | b) = (a * 2^k + b) % 256` whenever `b < 2^k` (the two operands have no common bit).
`size_t` is modelled as unbounded (`len * 4` in `base64_encoded_size` wraps only for `len ≥ 2^62`).
-/
namespace Flatcc.Base64

def EOK : Nat := 0
def EMORE : Nat := 1
def EARGS : Nat := 2
def EMODE : Nat := 3
def ETAIL : Nat := 4
def EDIRTY : Nat := 5

def modeRfc4648 : Nat := 0
def modeUrl : Nat := 1
def decModifierSkipspace : Nat := 32
def encModifierPadding : Nat := 128

/-- `mode & ~base64_modifier_mask` (clears bits 5, 6, 7) -/
def baseMode (mode : Nat) : Nat := mode % 32 + mode / 256 * 256
/-- `mode & base64_enc_modifier_padding` is non-zero -/
def padBit (mode : Nat) : Bool := decide (mode / 128 % 2 = 1)
/-- `mode & base64_dec_modifier_skipspace` is non-zero -/
def skipBit (mode : Nat) : Bool := decide (mode / 32 % 2 = 1)
/-- `mode & ~base64_enc_modifier_padding` -/
def unpadded (mode : Nat) : Nat := if mode / 128 % 2 = 1 then mode - 128 else mode

/-- `base64_encoded_size`; `(x + 3) & ~3 = (x + 3) / 4 * 4` -/
def encodedSize (len : Nat) (mode : Nat) : Nat :=
  if mode / 128 % 2 = 1 then (len * 4 / 3 + 3) / 4 * 4
  else if len % 3 = 2 then (len * 4 / 3 + 3) / 4 * 4 - 1
  else if len % 3 = 1 then (len * 4 / 3 + 3) / 4 * 4 - 2
  else (len * 4 / 3 + 3) / 4 * 4

/-- `base64_decoded_size` -/
def decodedSize (len : Nat) : Nat :=
  if len % 4 = 3 then len / 4 * 3 + 2
  else if len % 4 = 2 then len / 4 * 3 + 1
  else len / 4 * 3

/-! ## alphabets and decode tables (the tables are the ones of the header, extracted mechanically) -/

/-- "ABCDEFGHIJKLMNOPQRSTUVWXYZabcdefghijklmnopqrstuvwxyz0123456789+/" -/
def rfcAlphabet : List Nat :=
  [65, 66, 67, 68, 69, 70, 71, 72, 73, 74, 75, 76, 77, 78, 79, 80, 81, 82, 83, 84, 85, 86, 87, 88, 89, 90,
   97, 98, 99, 100, 101, 102, 103, 104, 105, 106, 107, 108, 109, 110, 111, 112, 113, 114, 115, 116, 117, 118, 119,
   120, 121, 122, 48, 49, 50, 51, 52, 53, 54, 55, 56, 57, 43, 47]

/-- "ABCDEFGHIJKLMNOPQRSTUVWXYZabcdefghijklmnopqrstuvwxyz0123456789-_" -/
def urlAlphabet : List Nat :=
  [65, 66, 67, 68, 69, 70, 71, 72, 73, 74, 75, 76, 77, 78, 79, 80, 81, 82, 83, 84, 85, 86, 87, 88, 89, 90,
   97, 98, 99, 100, 101, 102, 103, 104, 105, 106, 107, 108, 109, 110, 111, 112, 113, 114, 115, 116, 117, 118, 119,
   120, 121, 122, 48, 49, 50, 51, 52, 53, 54, 55, 56, 57, 45, 95]

def alphaRfc (d : Nat) : Nat := rfcAlphabet.getD d 0
def alphaUrl (d : Nat) : Nat := urlAlphabet.getD d 0

/-- `base64rfc4648_decode` -/
def rfcDecodeTbl : List Nat :=
  [ 64, 64, 64, 64, 64, 64, 64, 64, 64, 64, 64, 64, 64, 64, 64, 64,
    64, 64, 64, 64, 64, 64, 64, 64, 64, 64, 64, 64, 64, 64, 64, 64,
    64, 64, 64, 64, 64, 64, 64, 64, 64, 64, 64, 62, 64, 64, 64, 63,
    52, 53, 54, 55, 56, 57, 58, 59, 60, 61, 64, 64, 64, 66, 64, 64,
    64,  0,  1,  2,  3,  4,  5,  6,  7,  8,  9, 10, 11, 12, 13, 14,
    15, 16, 17, 18, 19, 20, 21, 22, 23, 24, 25, 64, 64, 64, 64, 64,
    64, 26, 27, 28, 29, 30, 31, 32, 33, 34, 35, 36, 37, 38, 39, 40,
    41, 42, 43, 44, 45, 46, 47, 48, 49, 50, 51, 64, 64, 64, 64, 64,
    64, 64, 64, 64, 64, 64, 64, 64, 64, 64, 64, 64, 64, 64, 64, 64,
    64, 64, 64, 64, 64, 64, 64, 64, 64, 64, 64, 64, 64, 64, 64, 64,
    64, 64, 64, 64, 64, 64, 64, 64, 64, 64, 64, 64, 64, 64, 64, 64,
    64, 64, 64, 64, 64, 64, 64, 64, 64, 64, 64, 64, 64, 64, 64, 64,
    64, 64, 64, 64, 64, 64, 64, 64, 64, 64, 64, 64, 64, 64, 64, 64,
    64, 64, 64, 64, 64, 64, 64, 64, 64, 64, 64, 64, 64, 64, 64, 64,
    64, 64, 64, 64, 64, 64, 64, 64, 64, 64, 64, 64, 64, 64, 64, 64,
    64, 64, 64, 64, 64, 64, 64, 64, 64, 64, 64, 64, 64, 64, 64, 64 ]

/-- `base64url_decode` -/
def urlDecodeTbl : List Nat :=
  [ 64, 64, 64, 64, 64, 64, 64, 64, 64, 64, 64, 64, 64, 64, 64, 64,
    64, 64, 64, 64, 64, 64, 64, 64, 64, 64, 64, 64, 64, 64, 64, 64,
    64, 64, 64, 64, 64, 64, 64, 64, 64, 64, 64, 64, 64, 62, 64, 64,
    52, 53, 54, 55, 56, 57, 58, 59, 60, 61, 64, 64, 64, 66, 64, 64,
    64,  0,  1,  2,  3,  4,  5,  6,  7,  8,  9, 10, 11, 12, 13, 14,
    15, 16, 17, 18, 19, 20, 21, 22, 23, 24, 25, 64, 64, 64, 64, 63,
    64, 26, 27, 28, 29, 30, 31, 32, 33, 34, 35, 36, 37, 38, 39, 40,
    41, 42, 43, 44, 45, 46, 47, 48, 49, 50, 51, 64, 64, 64, 64, 64,
    64, 64, 64, 64, 64, 64, 64, 64, 64, 64, 64, 64, 64, 64, 64, 64,
    64, 64, 64, 64, 64, 64, 64, 64, 64, 64, 64, 64, 64, 64, 64, 64,
    64, 64, 64, 64, 64, 64, 64, 64, 64, 64, 64, 64, 64, 64, 64, 64,
    64, 64, 64, 64, 64, 64, 64, 64, 64, 64, 64, 64, 64, 64, 64, 64,
    64, 64, 64, 64, 64, 64, 64, 64, 64, 64, 64, 64, 64, 64, 64, 64,
    64, 64, 64, 64, 64, 64, 64, 64, 64, 64, 64, 64, 64, 64, 64, 64,
    64, 64, 64, 64, 64, 64, 64, 64, 64, 64, 64, 64, 64, 64, 64, 64,
    64, 64, 64, 64, 64, 64, 64, 64, 64, 64, 64, 64, 64, 64, 64, 64 ]

/-- `base64rfc4648_decode_skipspace` -/
def rfcSkipDecodeTbl : List Nat :=
  [ 64, 64, 64, 64, 64, 64, 64, 64, 64, 64, 65, 64, 64, 65, 64, 64,
    64, 64, 64, 64, 64, 64, 64, 64, 64, 64, 64, 64, 64, 64, 64, 64,
    65, 64, 64, 64, 64, 64, 64, 64, 64, 64, 64, 62, 64, 64, 64, 63,
    52, 53, 54, 55, 56, 57, 58, 59, 60, 61, 64, 64, 64, 66, 64, 64,
    64,  0,  1,  2,  3,  4,  5,  6,  7,  8,  9, 10, 11, 12, 13, 14,
    15, 16, 17, 18, 19, 20, 21, 22, 23, 24, 25, 64, 64, 64, 64, 64,
    64, 26, 27, 28, 29, 30, 31, 32, 33, 34, 35, 36, 37, 38, 39, 40,
    41, 42, 43, 44, 45, 46, 47, 48, 49, 50, 51, 64, 64, 64, 64, 64,
    64, 64, 64, 64, 64, 64, 64, 64, 64, 64, 64, 64, 64, 64, 64, 64,
    64, 64, 64, 64, 64, 64, 64, 64, 64, 64, 64, 64, 64, 64, 64, 64,
    64, 64, 64, 64, 64, 64, 64, 64, 64, 64, 64, 64, 64, 64, 64, 64,
    64, 64, 64, 64, 64, 64, 64, 64, 64, 64, 64, 64, 64, 64, 64, 64,
    64, 64, 64, 64, 64, 64, 64, 64, 64, 64, 64, 64, 64, 64, 64, 64,
    64, 64, 64, 64, 64, 64, 64, 64, 64, 64, 64, 64, 64, 64, 64, 64,
    64, 64, 64, 64, 64, 64, 64, 64, 64, 64, 64, 64, 64, 64, 64, 64,
    64, 64, 64, 64, 64, 64, 64, 64, 64, 64, 64, 64, 64, 64, 64, 64 ]

/-- `base64url_decode_skipspace` -/
def urlSkipDecodeTbl : List Nat :=
  [ 64, 64, 64, 64, 64, 64, 64, 64, 64, 64, 65, 64, 64, 65, 64, 64,
    64, 64, 64, 64, 64, 64, 64, 64, 64, 64, 64, 64, 64, 64, 64, 64,
    65, 64, 64, 64, 64, 64, 64, 64, 64, 64, 64, 64, 64, 62, 64, 64,
    52, 53, 54, 55, 56, 57, 58, 59, 60, 61, 64, 64, 64, 66, 64, 64,
    64,  0,  1,  2,  3,  4,  5,  6,  7,  8,  9, 10, 11, 12, 13, 14,
    15, 16, 17, 18, 19, 20, 21, 22, 23, 24, 25, 64, 64, 64, 64, 63,
    64, 26, 27, 28, 29, 30, 31, 32, 33, 34, 35, 36, 37, 38, 39, 40,
    41, 42, 43, 44, 45, 46, 47, 48, 49, 50, 51, 64, 64, 64, 64, 64,
    64, 64, 64, 64, 64, 64, 64, 64, 64, 64, 64, 64, 64, 64, 64, 64,
    64, 64, 64, 64, 64, 64, 64, 64, 64, 64, 64, 64, 64, 64, 64, 64,
    64, 64, 64, 64, 64, 64, 64, 64, 64, 64, 64, 64, 64, 64, 64, 64,
    64, 64, 64, 64, 64, 64, 64, 64, 64, 64, 64, 64, 64, 64, 64, 64,
    64, 64, 64, 64, 64, 64, 64, 64, 64, 64, 64, 64, 64, 64, 64, 64,
    64, 64, 64, 64, 64, 64, 64, 64, 64, 64, 64, 64, 64, 64, 64, 64,
    64, 64, 64, 64, 64, 64, 64, 64, 64, 64, 64, 64, 64, 64, 64, 64,
    64, 64, 64, 64, 64, 64, 64, 64, 64, 64, 64, 64, 64, 64, 64, 64 ]

/-- `T[c]` for a `uint8_t c` (the default is never used for `c < 256`) -/
def decRfc (c : Nat) : Nat := rfcDecodeTbl.getD c 64
def decUrl (c : Nat) : Nat := urlDecodeTbl.getD c 64
def decRfcSkip (c : Nat) : Nat := rfcSkipDecodeTbl.getD c 64
def decUrlSkip (c : Nat) : Nat := urlSkipDecodeTbl.getD c 64

/-- the `switch (mode)` of `base64_encode`: `none` = `BASE64_EMODE` -/
def encAlphabet (mode : Nat) : Option (Nat → Nat) :=
  if baseMode mode = 0 then some alphaRfc else if baseMode mode = 1 then some alphaUrl else none

/-- the `switch (mode)` of `base64_decode`: `none` = `BASE64_EMODE` -/
def decTable (mode : Nat) : Option (Nat → Nat) :=
  if baseMode mode = 0 then some (if skipBit mode then decRfcSkip else decRfc)
  else if baseMode mode = 1 then some (if skipBit mode then decUrlSkip else decUrl)
  else none

/-! ## `base64_encode` -/

/-- the `while (len >= 3)` loop followed by the `switch (len)` tail; `A` = `T`, `pad` = `pad != 0` -/
def encGo (A : Nat → Nat) (pad : Bool) : List Nat → List Nat
  | s0 :: s1 :: s2 :: rest =>
    A (s0 / 4) :: A (s0 % 4 * 16 + s1 / 16) :: A (s1 % 16 * 4 + s2 / 64) :: A (s2 % 64) :: encGo A pad rest
  | [s0, s1] =>
    A (s0 / 4) :: A (s0 % 4 * 16 + s1 / 16) :: A (s1 % 16 * 4) :: (if pad then [61] else [])
  | [s0] =>
    A (s0 / 4) :: A (s0 % 4 * 16) :: (if pad then [61, 61] else [])
  | [] => []

/-- bytes written by `base64_encode(dst, src, 0, &src_len, mode)` (nothing for an unsupported mode) -/
def encode (src : List Nat) (mode : Nat) : List Nat :=
  match encAlphabet mode with
  | none => []
  | some A => encGo A (padBit mode) src

/-- return value of `base64_encode` (with `src_len` given) -/
def encodeRet (mode : Nat) : Int := if (encAlphabet mode).isSome then 0 else 3

/-! ## `base64_decode` -/

structure DecRes where
  /-- return value -/
  ret : Int
  /-- the bytes written to `dst` (= `*dst_len` many) -/
  decoded : List Nat
  /-- `*src_len` on return -/
  srcConsumed : Nat
deriving Repr, DecidableEq

/-- state at `done:` : return code, bytes written, the C variable `mark` (source length NOT accounted as parsed) -/
structure DecSt where
  ret : Nat
  out : List Nat
  mark : Nat
deriving Repr, DecidableEq

def DecSt.push (bs : List Nat) (r : DecSt) : DecSt := { r with out := bs ++ r.out }

/-- `limit < n`; `none` is the initial `(size_t)-1` (cannot be exhausted by any source that fits in memory) -/
def limLt : Option Nat → Nat → Bool
  | none, _ => false
  | some l, n => decide (l < n)

/-- the `tail:` switch on `k = hold.length`; `remaining` is `len` after `len -= i` -/
def decTail (hold : List Nat) (lim : Option Nat) (mark remaining : Nat) : DecSt :=
  match hold with
  | [] => ⟨0, [], remaining⟩
  | [h0, h1] =>
    if h1 * 16 % 256 ≠ 0 then ⟨5, [], mark⟩
    else if limLt lim 1 then ⟨1, [], mark⟩
    else ⟨0, [(h0 * 4 + h1 / 16) % 256], remaining⟩
  | [h0, h1, h2] =>
    if h2 * 64 % 256 ≠ 0 then ⟨5, [], mark⟩
    else if limLt lim 2 then ⟨1, [], mark⟩
    else ⟨0, [(h0 * 4 + h1 / 16) % 256, (h1 * 16 + h2 / 4) % 256], remaining⟩
  | _ => ⟨4, [], mark⟩

/-- the padding strip loop `while (i < len && i < 8)`: at most `n` further pad / ignored characters -/
def stripPad (T : Nat → Nat) : Nat → List Nat → List Nat
  | 0, l => l
  | _ + 1, [] => []
  | n + 1, c :: r => if T c = 66 ∨ T c = 65 then stripPad T n r else c :: r

/-- The `while (limit > 0) { for (i = 0; i < 4; ++i) … }` loop, one source character per step.
`src` = the characters from `src[i]` on (so `len = hold.length + src.length`), `hold` = `hold[0..i)`. -/
def decGo (T : Nat → Nat) : List Nat → List Nat → Option Nat → Nat → DecSt
  | [], hold, lim, mark => decTail hold lim mark 0                      -- `len == i`
  | c :: rest, hold, lim, mark =>
    if T c < 64 then
      match hold with
      | [h0, h1, h2] =>                                                 -- fourth symbol of a group
        if limLt lim 3 then ⟨1, [], mark⟩
        else
          let bytes := [(h0 * 4 + h1 / 16) % 256, (h1 * 16 + h2 / 4) % 256, (h2 * 64 + T c) % 256]
          match lim with
          | none => (decGo T rest [] none rest.length).push bytes
          | some l =>
            if l - 3 = 0 then ⟨0, bytes, rest.length⟩                   -- `while (limit > 0)` ends; `mark = len`
            else (decGo T rest [] (some (l - 3)) rest.length).push bytes
      | _ => decGo T rest (hold ++ [T c]) lim mark
    else if T c = 65 then decGo T rest hold lim mark                    -- cignore: `++src; --len; --i`
    else if T c = 66 then decTail hold lim mark (stripPad T (7 - hold.length) rest).length
    else decTail hold lim mark (rest.length + 1)

/-- `base64_decode(dst, src, &dst_len, &src_len, mode)` with `*dst_len = dstLen`, `*src_len = src.length` on entry -/
def decodeLim (dstLen : Nat) (src : List Nat) (mode : Nat) : DecRes :=
  match decTable mode with
  | none => ⟨3, [], 0⟩
  | some T =>
    let r := decGo T src [] (if dstLen = 0 then none else some dstLen) src.length
    ⟨r.ret, r.out, src.length - r.mark⟩

/-- `dst_len` 0 (or a null `dst_len`): no output limit -/
def decode (src : List Nat) (mode : Nat) : DecRes := decodeLim 0 src mode

/-! ## `print_uint8_vector_base64_object` (json_printer.c) -/

/-- The chunk loop, for ANY sequence of values of `ctx->pflush - ctx->p` seen at the loop head (`rooms`; the flush
behaviour is the environment). Text between the quotes. A chunk is `k` output characters = `k * 3 / 4` source
bytes encoded without padding; what is left when the loop ends is encoded with `mode`. -/
def printRooms : List Nat → List Nat → Nat → List Nat
  | [], src, mode => encode src mode
  | room :: rooms, src, mode =>
    if encodedSize src.length mode > room then
      if (room + 3) / 4 * 4 = 0 then printRooms rooms src mode                    -- flush and retry
      else if (room + 3) / 4 * 4 ≥ encodedSize src.length mode then encode src mode   -- ends within the reserve
      else
        encode (src.take ((room + 3) / 4 * 4 * 3 / 4)) (unpadded mode)
          ++ printRooms rooms (src.drop ((room + 3) / 4 * 4 * 3 / 4)) mode
    else encode src mode

/-- `printRooms` with the flush points kept: one piece per `ctx->flush` call inside the loop (an empty piece for the
"exactly at the flush point" retry), then the final piece. Used by the differential test to compare chunk boundaries. -/
def printRoomsPieces : List Nat → List Nat → Nat → List (List Nat)
  | [], src, mode => [encode src mode]
  | room :: rooms, src, mode =>
    if encodedSize src.length mode > room then
      if (room + 3) / 4 * 4 = 0 then [] :: printRoomsPieces rooms src mode
      else if (room + 3) / 4 * 4 ≥ encodedSize src.length mode then [encode src mode]
      else
        encode (src.take ((room + 3) / 4 * 4 * 3 / 4)) (unpadded mode)
          :: printRoomsPieces rooms (src.drop ((room + 3) / 4 * 4 * 3 / 4)) mode
    else [encode src mode]

/-- the same loop with a fixed chunk of `chunk` SOURCE bytes -/
def printChunksGo (chunk : Nat) (mode : Nat) : Nat → List Nat → List Nat
  | 0, src => encode src mode
  | fuel + 1, src =>
    if 0 < chunk ∧ chunk < src.length then
      encode (src.take chunk) (unpadded mode) ++ printChunksGo chunk mode fuel (src.drop chunk)
    else encode src mode

def printChunks (chunk : Nat) (src : List Nat) (mode : Nat) : List Nat :=
  printChunksGo chunk mode src.length src

/-- `flatcc_json_printer_uint8_vector_base64_field`: always padded -/
def printerMode (urlsafe : Bool) : Nat := (if urlsafe then 1 else 0) + 128

/-! ## `flatcc_json_parser_build_uint8_vector_base64` (json_parser.c) -/

/-- `text` = the characters between the quotes. The vector is extended by `max_len = base64_decoded_size(len)`,
`base64_decode` runs with `dst_len = max_len`, a non-zero return or `src_len != len` is a parse error, and the
vector is truncated to the decoded length. -/
def parseBase64 (text : List Nat) (urlsafe : Bool) : Option (List Nat) :=
  let r := decodeLim (decodedSize text.length) text (if urlsafe then 1 else 0)
  if r.ret ≠ 0 then none
  else if r.srcConsumed ≠ text.length then none
  else some r.decoded

/-- `flatcc_json_parser_string_part`: the run of characters up to the first `"`, `\` or control character, and the rest -/
def stringPart : List Nat → List Nat × List Nat
  | [] => ([], [])
  | c :: r => if c ≠ 34 ∧ 32 ≤ c ∧ c ≠ 92 then ((c :: (stringPart r).1), (stringPart r).2) else ([], c :: r)

/-- `flatcc_json_parser_build_uint8_vector_base64` on the input from the opening quote on: `string_start`,
`string_part` (which must stop at a `"`: an escape or a control character inside the text is an error), the decode,
`string_end`. Result: the vector content and the input after the closing quote. -/
def parseBase64Field (input : List Nat) (urlsafe : Bool) : Option (List Nat × List Nat) :=
  match input with
  | 34 :: r =>
    match (stringPart r).2 with
    | 34 :: rest =>
      match parseBase64 (stringPart r).1 urlsafe with
      | some v => some (v, rest)
      | none => none
    | _ => none
  | _ => none

/-- what `print_uint8_vector_base64_object` prints for a `[ubyte]` field value -/
def printBase64Field (rooms : List Nat) (s : List Nat) (urlsafe : Bool) : List Nat :=
  34 :: (printRooms rooms s (printerMode urlsafe) ++ [34])

end Flatcc.Base64
