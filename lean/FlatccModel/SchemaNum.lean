import FlatccModel.NumProofs
import FlatccModel.Generated.Consts
/-!
# Schema numeric literals (`parser.c: read_integer_value / read_hex_value`, `pparseint.h`,
`coerce.c: fb_coerce_scalar_type`, `semantics.c: process_enum` numbering)
-/
namespace Flatcc.SchemaNum
open Flatcc.Num

inductive STy | ubyte | ushort | uint | ulong | byte | short | int | long | bool
  deriving DecidableEq, Repr

/-- integer / boolean literal tokens (float literals are outside this model) -/
inductive Lit
  | dec (neg : Bool) (digits : List Nat)     -- ASCII digits
  | hex (neg : Bool) (digits : List Nat)     -- hex digit VALUES 0..15, after "0x"
  | bool (b : Bool)
  deriving Repr

/-- `fb_value_t` after the parser: unsigned, (negative) signed, bool, or invalid -/
inductive Val
  | uint (u : Nat)
  | int (i : Int)
  | bool (b : Bool)
  | invalid
  deriving Repr, DecidableEq

def hexVal (ds : List Nat) : Nat := ds.foldl (fun a d => a * 16 + d) 0

/-- two's complement reinterpretation of a 64-bit word -/
def toI64 (u : Nat) : Int := if u < 9223372036854775808 then (u : Int) else (u : Int) - 18446744073709551616

/-- `read_integer_value` / `read_hex_value`: magnitude through `parse_integer` / `parse_hex_integer`,
then `v->i = (int64_t)(0 - v->u)` for a negative sign (wraps for magnitudes above 2^63) -/
def readLit : Lit → Val
  | .dec neg ds =>
    match digitLoop ds 0 0 with
    | (some u, cnt) =>
      if cnt ≠ ds.length ∨ ds = [] then .invalid
      else if neg then .int (toI64 ((18446744073709551616 - u) % 18446744073709551616)) else .uint u
    | (none, _) => .invalid
  | .hex neg ds =>
    if ds = [] ∨ ds.length > 16 then .invalid
    else if neg then .int (toI64 ((18446744073709551616 - hexVal ds) % 18446744073709551616)) else .uint (hexVal ds)
  | .bool b => .bool b

/-- a non-negative `vt_int` is turned back into `vt_uint` -/
def normInt : Val → Val
  | .int i => if i ≥ 0 then .uint i.toNat else .int i
  | v => v

/-- `true`/`false` become 1/0 when boolean conversion is allowed and the target is not bool -/
def normBool (allowBool : Bool) (st : STy) : Val → Val
  | .bool b => if st ≠ .bool ∧ allowBool = true then .uint (if b then 1 else 0) else .bool b
  | v => v

def unsignedT (lim : Nat) : Val → Option Val
  | .uint u => if u > lim then none else some (.uint u)
  | _ => none

def signedT (minv : Int) (maxv : Nat) : Val → Option Val
  | .int i => if i < minv then none else some (.int i)
  | .uint u => if u > maxv then none else some (.int u)
  | _ => none

def longT : Val → Option Val
  | .int i => some (.int i)
  | .uint u => if u ≥ 9223372036854775808 then none else some (.int u)
  | _ => none

def boolT (allowBool : Bool) : Val → Option Val
  | .uint u => if allowBool then (if u > 1 then none else some (.uint u)) else none
  | .bool b => some (.bool b)
  | _ => none

/-- `fb_coerce_scalar_type(P, sym, st, value)`: `none` = error; result = the accepted value -/
def coerce (allowBool : Bool) (st : STy) (v : Val) : Option Val :=
  let v := normBool allowBool st (normInt v)
  match st with
  | .ulong => unsignedT 18446744073709551615 v
  | .uint => unsignedT 4294967295 v
  | .ushort => unsignedT 65535 v
  | .ubyte => unsignedT 255 v
  | .long => longT v
  | .int => signedT (-2147483648) 2147483647 v
  | .short => signedT (-32768) 32767 v
  | .byte => signedT (-128) 127 v
  | .bool => boolT allowBool v

/-- the accepted default as a mathematical integer -/
def valInt : Val → Option Int
  | .uint u => some u
  | .int i => some i
  | .bool b => some (if b then 1 else 0)
  | .invalid => none

/-- a scalar default: literal → value → coercion -/
def acceptLit (allowBool : Bool) (st : STy) (l : Lit) : Option Int :=
  match readLit l with
  | .invalid => none
  | v => (coerce allowBool st v).bind valInt

/-! ### specification side -/

def litValue : Lit → Int
  | .dec neg ds => if neg then -(decval ds : Int) else decval ds
  | .hex neg ds => if neg then -(hexVal ds : Int) else hexVal ds
  | .bool b => if b then 1 else 0

def range : STy → Int × Int
  | .ubyte => (0, 255) | .ushort => (0, 65535) | .uint => (0, 4294967295) | .ulong => (0, 18446744073709551615)
  | .byte => (-128, 127) | .short => (-32768, 32767) | .int => (-2147483648, 2147483647)
  | .long => (-9223372036854775808, 9223372036854775807) | .bool => (0, 1)

def Representable (st : STy) (v : Int) : Prop := (range st).1 ≤ v ∧ v ≤ (range st).2

/-! ### enum numbering (`process_enum`, plain enums without bit_flags) -/

/-- members with optional explicit (already parsed) values; result: the value of each member or `none` on error.
`prev = none` for the first member. -/
def enumValues (st : STy) : Option Val → List (Option Val) → Option (List Int)
  | _, [] => some []
  | prev, m :: rest =>
    let idx : Option Val :=
      match m with
      | some v => some v
      | none =>
        match prev with
        | none => some (.int 0)                       -- first member starts at 0
        | some (.uint u) => if st = .ulong ∧ u = 18446744073709551615 then none else some (.uint (u + 1))
        | some (.int i) => if st = .long ∧ i = 9223372036854775807 then none else some (.int (i + 1))
        | some (.bool b) => if b then none else some (.bool true)
        | some .invalid => none
    match idx with
    | none => none
    | some v =>
      match coerce false st v with
      | none => none
      | some v' =>
        match valInt v', enumValues st (some v') rest with
        | some i, some r => some (i :: r)
        | _, _ => none

/-! ### enum numbering with `bit_flags` (`process_enum`): members are bit positions -/

def bitsOf : STy → Nat
  | .ubyte | .byte | .bool => 8 | .ushort | .short => 16 | .uint | .int => 32 | .ulong | .long => 64

/-- `index.u`: the 64-bit unsigned view of the position counter -/
def valU : Val → Nat
  | .uint u => u
  | .int i => if i ≥ 0 then i.toNat else (i + 18446744073709551616).toNat
  | .bool b => if b then 1 else 0
  | .invalid => 0

/-- positions with optional explicit values; result: the flag value of each member or `none` on error. An explicit position
must be an unsigned literal; a missing one continues from the previous POSITION (not from the flag value); the position must
be below the bit width of the underlying type and the flag `1 << position` must pass the coercion to that type (which refuses
the sign bit of the signed types). -/
def enumFlagValues (st : STy) : Option Val → List (Option Val) → Option (List Int)
  | _, [] => some []
  | prev, m :: rest =>
    let idx : Option Val :=
      match m with
      | some (.uint u) => some (.uint u)
      | some _ => none
      | none =>
        match prev with
        | none => some (.int 0)
        | some (.uint u) => if st = .ulong ∧ u = 18446744073709551615 then none else some (.uint (u + 1))
        | some (.int i) => if st = .long ∧ i = 9223372036854775807 then none else some (.int (i + 1))
        | some (.bool b) => if b then none else some (.bool true)
        | some .invalid => none
    match idx with
    | none => none
    | some v =>
      if valU v ≥ bitsOf st then none else
      match coerce false st (.uint (2 ^ valU v)) with
      | none => none
      | some v' =>
        match valInt v', enumFlagValues st (some v) rest with
        | some i, some r => some (i :: r)
        | _, _ => none

/-! ### `force_align` (`semantics.c: is_valid_align`, `process_struct`, `analyze_struct`) -/

/-- the loop of `is_valid_align`: `n = 1; while (n <= align) { if (n == align) return 1; n *= 2; }` -/
def validLoop : Nat → Nat → Nat → Bool
  | 0, _, _ => false
  | f+1, n, a => if n ≤ a then (if n = a then true else validLoop f (2 * n) a) else false

/-- `is_valid_align(uint64_t align)`: the attribute's 64-bit value, not a narrowed copy of it -/
def isValidAlign (a : Nat) : Bool :=
  if a = 0 ∨ a > Flatcc.Consts.forceAlignMax then false else validLoop 64 1 a

/-- `struct S (force_align: <literal>)` over members whose natural alignment is `natural`: the attribute must be an unsigned
literal (known attribute of type `vt_uint`), a valid alignment, and not below the natural alignment; the struct then has it -/
def forceAlign (l : Lit) (natural : Nat) : Option Nat :=
  match readLit l with
  | .uint u => if isValidAlign u && decide (natural ≤ u) then some u else none
  | _ => none

end Flatcc.SchemaNum
