/-!
# Clone / pick with an optional reference map (model of the generated `<T>_clone`, `__flatbuffers_memoize_*`)

The generated clone of an object first asks the reference map for the source address (`memoize_begin`), otherwise
clones every object the source refers to (tables: offset fields in id order; offset vectors: elements in order; union
vectors: value elements), creates the new object from the source's inline content and the new references, and stores
(source address ↦ new reference) in the map (`memoize_end`). Without a map nothing is looked up or stored.

Source: a partial map address → (inline content, referenced addresses). Destination: the objects in creation order; a
reference is the index of an object.
-/
namespace Flatcc.Clone

structure SObj where
  payload : List Nat
  kids : List Nat
  deriving Repr

structure DObj where
  payload : List Nat
  kids : List Nat
  deriving Repr

abbrev Src := Nat → Option SObj

structure St where
  dst : List DObj := []
  memo : List (Nat × Nat) := []     -- the reference map (newest first)
  log : List (Nat × Nat) := []      -- ghost: (source address, reference) of every object created
  deriving Repr

def cloneKids (rec : Nat → St → Option (Nat × St)) : List Nat → St → Option (List Nat × St)
  | [], st => some ([], st)
  | k :: ks, st =>
    match rec k st with
    | none => none
    | some (r, st1) =>
      match cloneKids rec ks st1 with
      | none => none
      | some (rs, st2) => some (r :: rs, st2)

def lookup (m : List (Nat × Nat)) (a : Nat) : Option Nat := (m.find? (fun e => e.1 == a)).map Prod.snd

/-- `fuel` bounds the depth of the source (`FLATCC_*` nesting limits / forward offsets make it finite) -/
def clone (useMap : Bool) (src : Src) : Nat → Nat → St → Option (Nat × St)
  | 0, _, _ => none
  | f + 1, a, st =>
    match (if useMap then lookup st.memo a else none) with
    | some r => some (r, st)
    | none =>
      match src a with
      | none => none
      | some o =>
        match cloneKids (clone useMap src f) o.kids st with
        | none => none
        | some (rs, st') =>
          let r := st'.dst.length
          some (r, { dst := st'.dst ++ [{ payload := o.payload, kids := rs }],
                     memo := if useMap then (a, r) :: st'.memo else st'.memo,
                     log := (a, r) :: st'.log })

/-! ## content: the copy is bisimilar to the source -/

/-- two lists related element by element -/
inductive All2 (R : Nat → Nat → Prop) : List Nat → List Nat → Prop
  | nil : All2 R [] []
  | cons {a b : Nat} {as bs : List Nat} : R a b → All2 R as bs → All2 R (a :: as) (b :: bs)

/-- `R` relates source addresses to references such that related objects have the same inline content and pairwise
related referents: whatever a reader does from `a` in the source and from `r` in the copy, it sees the same -/
def Sim (src : Src) (dst : List DObj) (R : Nat → Nat → Prop) : Prop :=
  ∀ a r, R a r → ∃ o d, src a = some o ∧ dst[r]? = some d ∧ o.payload = d.payload ∧ All2 R o.kids d.kids

def Inv (src : Src) (st : St) : Prop :=
  Sim src st.dst (fun a r => (a, r) ∈ st.log) ∧ (∀ e ∈ st.memo, e ∈ st.log)

/-- `st'` extends `st`: objects are only appended, pairs only added -/
def Ext (st st' : St) : Prop :=
  (∃ x, st'.dst = st.dst ++ x) ∧ (∀ e ∈ st.log, e ∈ st'.log)

theorem Ext.refl (st : St) : Ext st st := ⟨⟨[], by simp⟩, fun _ h => h⟩

theorem Ext.trans {a b c : St} (h1 : Ext a b) (h2 : Ext b c) : Ext a c := by
  obtain ⟨⟨x, hx⟩, l1⟩ := h1
  obtain ⟨⟨y, hy⟩, l2⟩ := h2
  exact ⟨⟨x ++ y, by rw [hy, hx, List.append_assoc]⟩, fun e he => l2 e (l1 e he)⟩

theorem lookup_mem (m : List (Nat × Nat)) (a r : Nat) (h : lookup m a = some r) : (a, r) ∈ m := by
  unfold lookup at h
  cases hf : m.find? (fun e => e.1 == a) with
  | none => rw [hf] at h; simp at h
  | some e =>
    rw [hf] at h
    simp only [Option.map_some, Option.some.injEq] at h
    have hm := List.mem_of_find?_eq_some hf
    have hp := List.find?_some hf
    simp only [beq_iff_eq] at hp
    obtain ⟨e1, e2⟩ := e
    simp only at hp h
    subst hp; subst h; exact hm

theorem forall2_mono {R S : Nat → Nat → Prop} (h : ∀ a r, R a r → S a r) :
    ∀ {l1 l2 : List Nat}, All2 R l1 l2 → All2 S l1 l2 := by
  intro l1 l2 hf
  induction hf with
  | nil => exact .nil
  | cons hab _ ih => exact .cons (h _ _ hab) ih

/-- the result of cloning a list of referents -/
theorem cloneKids_spec (src : Src) (rec : Nat → St → Option (Nat × St))
    (hrec : ∀ k st r st', Inv src st → rec k st = some (r, st') → Inv src st' ∧ Ext st st' ∧ (k, r) ∈ st'.log) :
    ∀ ks st rs st', Inv src st → cloneKids rec ks st = some (rs, st') →
      Inv src st' ∧ Ext st st' ∧ All2 (fun a r => (a, r) ∈ st'.log) ks rs := by
  intro ks
  induction ks with
  | nil =>
    intro st rs st' hi h
    simp only [cloneKids, Option.some.injEq, Prod.mk.injEq] at h
    obtain ⟨h1, h2⟩ := h
    subst h1; subst h2
    exact ⟨hi, Ext.refl _, .nil⟩
  | cons k ks ih =>
    intro st rs st' hi h
    simp only [cloneKids] at h
    cases h1 : rec k st with
    | none => rw [h1] at h; simp at h
    | some p =>
      obtain ⟨r, st1⟩ := p
      rw [h1] at h
      simp only at h
      cases h2 : cloneKids rec ks st1 with
      | none => rw [h2] at h; simp at h
      | some q =>
        obtain ⟨rs2, st2⟩ := q
        rw [h2] at h
        simp only [Option.some.injEq, Prod.mk.injEq] at h
        obtain ⟨e1, e2⟩ := h
        subst e1; subst e2
        obtain ⟨i1, x1, m1⟩ := hrec k st r st1 hi h1
        obtain ⟨i2, x2, f2⟩ := ih st1 rs2 _ i1 h2
        exact ⟨i2, x1.trans x2, .cons (x2.2 _ m1) f2⟩

theorem getElem?_append_left' {α} (l x : List α) (r : Nat) (d : α) (h : l[r]? = some d) : (l ++ x)[r]? = some d := by
  have hr : r < l.length := by
    rcases Nat.lt_or_ge r l.length with h1 | h1
    · exact h1
    · rw [List.getElem?_eq_none h1] at h; simp at h
  rw [List.getElem?_append_left hr]; exact h

/-- **content**: whatever the state, with or without a reference map, a successful clone keeps the invariant and relates the
source address to the returned reference -/
theorem clone_spec (useMap : Bool) (src : Src) :
    ∀ f a st r st', Inv src st → clone useMap src f a st = some (r, st') →
      Inv src st' ∧ Ext st st' ∧ (a, r) ∈ st'.log := by
  intro f
  induction f with
  | zero => intro a st r st' _ h; simp [clone] at h
  | succ f ih =>
    intro a st r st' hi h
    simp only [clone] at h
    cases hl : (if useMap then lookup st.memo a else none) with
    | some r0 =>
      rw [hl] at h
      simp only [Option.some.injEq, Prod.mk.injEq] at h
      obtain ⟨e1, e2⟩ := h
      subst e1; subst e2
      refine ⟨hi, Ext.refl _, ?_⟩
      cases useMap with
      | false => simp at hl
      | true =>
        simp only [if_true] at hl
        exact hi.2 _ (lookup_mem _ _ _ hl)
    | none =>
      rw [hl] at h
      simp only at h
      cases hs : src a with
      | none => rw [hs] at h; simp at h
      | some o =>
        rw [hs] at h
        simp only at h
        cases hk : cloneKids (clone useMap src f) o.kids st with
        | none => rw [hk] at h; simp at h
        | some q =>
          obtain ⟨rs, st1⟩ := q
          rw [hk] at h
          simp only [Option.some.injEq, Prod.mk.injEq] at h
          obtain ⟨e1, e2⟩ := h
          obtain ⟨i1, x1, f1⟩ := cloneKids_spec src (clone useMap src f) (fun k st r st' => ih k st r st') o.kids st rs st1 hi hk
          subst e1; subst e2
          refine ⟨⟨?_, ?_⟩, ⟨?_, ?_⟩, by simp⟩
          · -- Sim for the extended state
            intro a' r' hm
            simp only [List.mem_cons, Prod.mk.injEq] at hm
            rcases hm with ⟨ha, hr⟩ | hm
            · subst ha; subst hr
              refine ⟨o, { payload := o.payload, kids := rs }, hs, by simp, rfl, ?_⟩
              exact forall2_mono (fun a r h => List.mem_cons_of_mem _ h) f1
            · obtain ⟨o', d', s1, s2, s3, s4⟩ := i1.1 a' r' hm
              exact ⟨o', d', s1, getElem?_append_left' _ _ _ _ s2, s3, forall2_mono (fun a r h => List.mem_cons_of_mem _ h) s4⟩
          · intro e he
            cases useMap with
            | false => exact List.mem_cons_of_mem _ (i1.2 e (by simpa using he))
            | true =>
              simp only [if_true, List.mem_cons] at he
              rcases he with he | he
              · subst he; simp
              · exact List.mem_cons_of_mem _ (i1.2 e he)
          · obtain ⟨x, hx⟩ := x1.1
            exact ⟨x ++ [{ payload := o.payload, kids := rs }], by simp [hx]⟩
          · intro e he; exact List.mem_cons_of_mem _ (x1.2 e he)

def init : St := {}

theorem inv_init (src : Src) : Inv src init := ⟨fun a r h => by simp [init] at h, fun e h => by simp [init] at h⟩

/-! ## sharing: with a reference map every source object is created once -/

/-- offsets point forward (unsigned `uoffset_t`): what an object refers to lies at a higher address -/
def Fwd (src : Src) : Prop := ∀ a o, src a = some o → ∀ k ∈ o.kids, a < k

def InvS (st : St) : Prop :=
  st.memo = st.log ∧ (st.log.map Prod.fst).Nodup ∧ st.dst.length = st.log.length

theorem lookup_none (m : List (Nat × Nat)) (a : Nat) (h : lookup m a = none) : a ∉ m.map Prod.fst := by
  unfold lookup at h
  simp only [Option.map_eq_none_iff] at h
  rw [List.find?_eq_none] at h
  intro hm
  obtain ⟨e, he, hea⟩ := List.mem_map.mp hm
  exact h e he (by simpa using hea)

theorem cloneKids_share (rec : Nat → St → Option (Nat × St)) (lo : Nat)
    (hrec : ∀ k st r st', lo < k → InvS st → rec k st = some (r, st') →
      InvS st' ∧ ∀ x ∈ st'.log.map Prod.fst, x ∈ st.log.map Prod.fst ∨ k ≤ x) :
    ∀ ks st rs st', (∀ k ∈ ks, lo < k) → InvS st → cloneKids rec ks st = some (rs, st') →
      InvS st' ∧ ∀ x ∈ st'.log.map Prod.fst, x ∈ st.log.map Prod.fst ∨ lo < x := by
  intro ks
  induction ks with
  | nil =>
    intro st rs st' _ hi h
    simp only [cloneKids, Option.some.injEq, Prod.mk.injEq] at h
    obtain ⟨h1, h2⟩ := h
    subst h1; subst h2
    exact ⟨hi, fun x hx => Or.inl hx⟩
  | cons k ks ih =>
    intro st rs st' hlo hi h
    simp only [cloneKids] at h
    cases h1 : rec k st with
    | none => rw [h1] at h; simp at h
    | some p =>
      obtain ⟨r, st1⟩ := p
      rw [h1] at h
      simp only at h
      cases h2 : cloneKids rec ks st1 with
      | none => rw [h2] at h; simp at h
      | some q =>
        obtain ⟨rs2, st2⟩ := q
        rw [h2] at h
        simp only [Option.some.injEq, Prod.mk.injEq] at h
        obtain ⟨e1, e2⟩ := h
        subst e1; subst e2
        have hk : lo < k := hlo k (by simp)
        obtain ⟨i1, n1⟩ := hrec k st r st1 hk hi h1
        obtain ⟨i2, n2⟩ := ih st1 rs2 _ (fun k' hk' => hlo k' (by simp [hk'])) i1 h2
        refine ⟨i2, fun x hx => ?_⟩
        rcases n2 x hx with h3 | h3
        · rcases n1 x h3 with h4 | h4
          · exact Or.inl h4
          · exact Or.inr (by omega)
        · exact Or.inr h3

/-- **sharing**: with the reference map on a forward-pointing source, the map holds exactly the pairs of the objects created,
no source address twice, and the number of objects created equals the number of distinct source addresses cloned -/
theorem clone_share (src : Src) (hf : Fwd src) :
    ∀ f a st r st', InvS st → clone true src f a st = some (r, st') →
      InvS st' ∧ ∀ x ∈ st'.log.map Prod.fst, x ∈ st.log.map Prod.fst ∨ a ≤ x := by
  intro f
  induction f with
  | zero => intro a st r st' _ h; simp [clone] at h
  | succ f ih =>
    intro a st r st' hi h
    simp only [clone, if_true] at h
    cases hl : lookup st.memo a with
    | some r0 =>
      rw [hl] at h
      simp only [Option.some.injEq, Prod.mk.injEq] at h
      obtain ⟨e1, e2⟩ := h
      subst e1; subst e2
      exact ⟨hi, fun x hx => Or.inl hx⟩
    | none =>
      rw [hl] at h
      simp only at h
      cases hs : src a with
      | none => rw [hs] at h; simp at h
      | some o =>
        rw [hs] at h
        simp only at h
        cases hk : cloneKids (clone true src f) o.kids st with
        | none => rw [hk] at h; simp at h
        | some q =>
          obtain ⟨rs, st1⟩ := q
          rw [hk] at h
          simp only [Option.some.injEq, Prod.mk.injEq] at h
          obtain ⟨e1, e2⟩ := h
          obtain ⟨i1, n1⟩ := cloneKids_share (clone true src f) a (fun k st r st' _ => ih k st r st') o.kids st rs st1
            (hf a o hs) hi hk
          subst e1; subst e2
          have hnot : a ∉ st1.log.map Prod.fst := by
            intro hm
            rcases n1 a hm with h3 | h3
            · have := lookup_none _ _ hl
              rw [hi.1] at this
              exact this h3
            · omega
          obtain ⟨m1, d1, l1⟩ := i1
          refine ⟨⟨by simp [m1], ?_, by simp [l1]⟩, ?_⟩
          · simp only [List.map_cons, List.nodup_cons]
            exact ⟨hnot, d1⟩
          · intro x hx
            simp only [List.map_cons, List.mem_cons] at hx
            rcases hx with hx | hx
            · exact Or.inr (by omega)
            · rcases n1 x hx with h3 | h3
              · exact Or.inl h3
              · exact Or.inr (by omega)

theorem invS_init : InvS init := by simp [InvS, init]

/-- without a map nothing is stored in it -/
theorem clone_nomap_memo (src : Src) :
    ∀ f a st r st', clone false src f a st = some (r, st') → st'.memo = st.memo := by
  intro f
  induction f with
  | zero => intro a st r st' h; simp [clone] at h
  | succ f ih =>
    intro a st r st' h
    simp only [clone, Bool.false_eq_true, if_false] at h
    cases hs : src a with
    | none => rw [hs] at h; simp at h
    | some o =>
      rw [hs] at h
      simp only at h
      cases hk : cloneKids (clone false src f) o.kids st with
      | none => rw [hk] at h; simp at h
      | some q =>
        obtain ⟨rs, st1⟩ := q
        rw [hk] at h
        simp only [Option.some.injEq, Prod.mk.injEq] at h
        obtain ⟨e1, e2⟩ := h
        subst e2
        simp only
        -- the kids leave the map alone
        have : ∀ ks st rs st', cloneKids (clone false src f) ks st = some (rs, st') → st'.memo = st.memo := by
          intro ks
          induction ks with
          | nil => intro st rs st' h; simp only [cloneKids, Option.some.injEq, Prod.mk.injEq] at h; rw [← h.2]
          | cons k ks ihk =>
            intro st rs st' h
            simp only [cloneKids] at h
            cases h1 : clone false src f k st with
            | none => rw [h1] at h; simp at h
            | some p =>
              obtain ⟨r, s1⟩ := p
              rw [h1] at h
              simp only at h
              cases h2 : cloneKids (clone false src f) ks s1 with
              | none => rw [h2] at h; simp at h
              | some q =>
                obtain ⟨rs2, s2⟩ := q
                rw [h2] at h
                simp only [Option.some.injEq, Prod.mk.injEq] at h
                rw [← h.2, ihk s1 rs2 s2 h2, ih k st r s1 h1]
        exact this o.kids st rs st1 hk

/-! ## termination: on a forward-pointing, closed source the clone succeeds -/

/-- every referent exists and lies below `bound` (what the verifier establishes for a buffer of `bound` bytes) -/
def Closed (src : Src) (bound : Nat) : Prop := ∀ a o, src a = some o → ∀ k ∈ o.kids, (src k).isSome ∧ k < bound

theorem cloneKids_total (rec : Nat → St → Option (Nat × St)) :
    ∀ ks, (∀ k ∈ ks, ∀ st, ∃ r st', rec k st = some (r, st')) → ∀ st, ∃ rs st', cloneKids rec ks st = some (rs, st') := by
  intro ks
  induction ks with
  | nil => intro _ st; exact ⟨[], st, rfl⟩
  | cons k ks ih =>
    intro h st
    obtain ⟨r, s1, h1⟩ := h k (by simp) st
    obtain ⟨rs, s2, h2⟩ := ih (fun k' hk' => h k' (by simp [hk'])) s1
    exact ⟨r :: rs, s2, by simp [cloneKids, h1, h2]⟩

theorem clone_total (useMap : Bool) (src : Src) (bound : Nat) (hf : Fwd src) (hc : Closed src bound) :
    ∀ f a st, a < bound → (src a).isSome → bound ≤ a + f → ∃ r st', clone useMap src f a st = some (r, st') := by
  intro f
  induction f with
  | zero => intro a st h1 _ h3; omega
  | succ f ih =>
    intro a st h1 h2 h3
    simp only [clone]
    cases hl : (if useMap then lookup st.memo a else none) with
    | some r0 => exact ⟨r0, st, rfl⟩
    | none =>
      simp only
      cases hs : src a with
      | none => rw [hs] at h2; simp at h2
      | some o =>
        simp only
        obtain ⟨rs, s1, hk⟩ := cloneKids_total (clone useMap src f) o.kids
          (fun k hk st => ih k st (hc a o hs k hk).2 (hc a o hs k hk).1 (by have := hf a o hs k hk; omega)) st
        rw [hk]
        exact ⟨_, _, rfl⟩

end Flatcc.Clone
