import FlatccModel.Generated.Consts
/-!
# Builder (`src/runtime/builder.c`): emit layer (L0) and the table frame (L1), over a value tree (L2)

The emitted stream lives in a virtual address space: front bytes at `[emitStart, 0)` (growing
downward), back bytes at `[0, emitEnd)` (clustered vtables, end padding).  Every `create_*`
function is modelled with the padding arithmetic of the C code (`front_pad`, `back_pad`), the
reference it returns, and the bytes of its iov in address order.  The table frame
(`start_table` / `table_add` / `table_add_offset` / `end_table`) is modelled by the field list in
call order (`layoutTable`).  `build` drives these from a value tree in creation order.
-/
namespace Flatcc.Builder

def le16 (x : Nat) : List Nat := [x % 256, x / 256 % 256]
def le32 (x : Nat) : List Nat := [x % 256, x / 256 % 256, x / 65536 % 256, x / 16777216 % 256]
/-- a (possibly negative) 32-bit quantity as `uoffset_t` bits -/
def u32 (x : Int) : Nat := (x % 4294967296).toNat
def zeros (n : Nat) : List Nat := List.replicate n 0

/-- `FLATCC_BUILDER_UPDATE_VT_HASH` (multiplicative variant) -/
def vtHashUpdate (h id off : Nat) : Nat :=
  ((((id ^^^ h) % 4294967296) * 2654435761 % 4294967296) ^^^ off) % 4294967296 * 2654435761 % 4294967296
/-- `FLATCC_BUILDER_BUCKET_VT_HASH(hash, ht_width)`; the table has `FLATCC_BUILDER_MIN_HASH_COUNT` slots and never resizes -/
def vtBucket (h : Nat) : Nat := h / 2 ^ (32 - Nat.log2 Flatcc.Consts.builderMinHashCount)

structure VtEntry where
  bytes : List Nat
  bucket : Nat
  nestId : Nat
  ref : Int
  deriving Repr

structure BS where
  front : List Nat := []
  back : List Nat := []
  minAlign : Nat := 0
  blockAlign : Nat := 0
  nestId : Nat := 0
  nestCount : Nat := 0
  bufferMark : Int := 0
  withSize : Bool := false
  clustering : Bool := true
  vtCache : List VtEntry := []
  refs : Array Int := #[]          -- references of created objects, in creation order
  emits : List (Int × Nat) := []   -- (offset, length) of every emit call, newest first
  deriving Repr

def BS.emitStart (s : BS) : Int := -(s.front.length : Int)
def BS.emitEnd (s : BS) : Int := (s.back.length : Int)

/-- `front_pad(B, size, align)` -/
def frontPad (s : BS) (size align : Nat) : Nat := ((s.emitStart - size) % (align : Int)).toNat
/-- `back_pad(B, align)` -/
def backPad (s : BS) (align : Nat) : Nat := (s.emitEnd % (align : Int)).toNat

/-- `emit_front`: bytes in address order; returns the new state and the reference (= new emit start) -/
def emitFront (s : BS) (bytes : List Nat) : BS × Int :=
  let s' := { s with front := bytes ++ s.front, emits := (-((bytes.length + s.front.length : Nat) : Int), bytes.length) :: s.emits }
  (s', s'.emitStart)

/-- `emit_back`: returns reference + 1 -/
def emitBack (s : BS) (bytes : List Nat) : BS × Int :=
  ({ s with back := s.back ++ bytes, emits := (s.emitEnd, bytes.length) :: s.emits }, s.emitEnd + 1)

def setMinAlign (s : BS) (a : Nat) : BS := if s.minAlign < a then { s with minAlign := a } else s

def remember (s : BS) (r : Int) : BS := { s with refs := s.refs.push r }

/-- `flatcc_builder_create_string(B, s, len)` -/
def createString (s : BS) (data : List Nat) : BS × Int :=
  let pad := frontPad s (data.length + 1) 4 + 1
  emitFront s (le32 data.length ++ data ++ zeros pad)

/-- `flatcc_builder_create_vector(B, data, count, elem_size, align, max_count)` -/
def createVector (s : BS) (data : List Nat) (count align : Nat) : BS × Int :=
  let align := max align 4
  let s := setMinAlign s align
  let pad := frontPad s data.length align
  emitFront s (le32 count ++ data ++ zeros pad)

/-- `_create_offset_vector_direct`: `refs[i] = 0` is a null element (union vectors) -/
def createOffsetVector (s : BS) (refs : List Int) : BS × Int :=
  let s := setMinAlign s 4
  let size := 4 * refs.length
  let pad := frontPad s size 4
  let base : Int := s.emitStart - (4 + size + pad : Nat)
  let elems := (refs.zipIdx.map (fun (r, i) => if r = 0 then le32 0 else le32 (u32 (r - base - (4 * i : Nat) - 4)))).flatten
  emitFront s (le32 refs.length ++ elems ++ zeros pad)

/-- `flatcc_builder_create_struct(B, data, size, align)` -/
def createStruct (s : BS) (data : List Nat) (align : Nat) : BS × Int :=
  let s := setMinAlign s align
  let pad := frontPad s data.length align
  emitFront s (data ++ zeros pad)

/-- `flatcc_builder_create_vtable`: clustered at the back for the top-level buffer, else in front; ref + 1 -/
def createVtable (s : BS) (vt : List Nat) : BS × Int :=
  if s.nestId = 0 ∧ s.clustering then emitBack s vt
  else let (s', r) := emitFront s (vt ++ zeros (frontPad s vt.length 2)); (s', r + 1)

/-- `flatcc_builder_create_cached_vtable`: reuse a vtable already emitted within the same buffer. Only the hash
bucket of `hash` is searched, and the hash covers (id, size) of the add calls, so byte-identical vtables reached
with different field sizes can be emitted twice. -/
def createCachedVtable (s : BS) (vt : List Nat) (hash : Nat) : BS × Int :=
  match s.vtCache.find? (fun e => e.bytes == vt && e.nestId == s.nestId && e.bucket == vtBucket hash) with
  | some e => (s, e.ref)
  | none =>
    let (s', r) := createVtable s vt
    ({ s' with vtCache := { bytes := vt, bucket := vtBucket hash, nestId := s.nestId, ref := r } :: s'.vtCache }, r)

/-- one `table_add` / `table_add_offset` call: inline bytes, or a reference to patch -/
inductive FieldVal
  | inl (size align : Nat) (bytes : List Nat)
  | off (ref : Int)
  deriving Repr

structure TableLayout where
  data : List Nat            -- the data stack content (table body without the vtable offset field)
  vs : List (Nat × Nat)      -- (id, vtable entry)
  offsets : List (Nat × Int) -- (position in data, reference) of offset fields
  align : Nat
  idEnd : Nat
  hash : Nat
  deriving Repr

def alignUp (x a : Nat) : Nat := (x + a - 1) / a * a

/-- one `table_add` (inline: zero-initialised space of `size` bytes aligned to `align`, then the caller's bytes)
or `table_add_offset` call -/
def layoutStep (t : TableLayout) (f : Nat × FieldVal) : TableLayout :=
  match f.2 with
  | .inl size align bytes =>
    let off := alignUp t.data.length align
    { t with data := t.data ++ zeros (off - t.data.length) ++ (bytes ++ zeros (size - bytes.length)).take size,
             vs := t.vs ++ [(f.1, off + 4)], align := max t.align align, idEnd := max t.idEnd (f.1 + 1),
             hash := vtHashUpdate t.hash f.1 size }
  | .off r =>
    let off := alignUp t.data.length 4
    { t with data := t.data ++ zeros (off - t.data.length) ++ le32 0,
             vs := t.vs ++ [(f.1, off + 4)], offsets := t.offsets ++ [(off, r)], idEnd := max t.idEnd (f.1 + 1),
             hash := vtHashUpdate t.hash f.1 4 }

def layoutInit : TableLayout :=
  { data := [], vs := [], offsets := [], align := 4, idEnd := 0, hash := Flatcc.Consts.vtHashInit }

/-- the table frame: fields in call order -/
def layoutTable (fields : List (Nat × FieldVal)) : TableLayout := fields.foldl layoutStep layoutInit

def vtableBytes (t : TableLayout) : List Nat :=
  le16 (2 * (t.idEnd + 2)) ++ le16 (t.data.length + 4) ++
    ((List.range t.idEnd).map (fun id => le16 (match t.vs.find? (fun e => e.1 == id) with | some e => e.2 | none => 0))).flatten

def patchAt (data : List Nat) (pos : Nat) (v : List Nat) : List Nat := data.take pos ++ v ++ data.drop (pos + v.length)

/-- the value `create_table` stores in an offset field at data position `pos` for the reference `r` -/
def patchVal (base : Int) (pos : Nat) (r : Int) : List Nat := le32 (u32 (r - base - pos - 4))
def patchAll (base : Int) (data : List Nat) (offs : List (Nat × Int)) : List Nat :=
  offs.foldl (fun d o => patchAt d o.1 (patchVal base o.1 o.2)) data

/-- `flatcc_builder_create_table(B, data, size, align, offsets, count, vt_ref)` -/
def createTable (s : BS) (t : TableLayout) (vtRef : Int) : BS × Int :=
  let align := max t.align 4
  let s := setMinAlign s align
  let size := t.data.length
  let pad := frontPad s size align
  let base : Int := s.emitStart - (pad + size + 4 : Nat)
  let vtOffset := u32 (base - (vtRef - 1))
  let data := patchAll base t.data t.offsets
  emitFront s (le32 vtOffset ++ data ++ zeros pad)

/-- `flatcc_builder_end_table` -/
def endTable (s : BS) (fields : List (Nat × FieldVal)) : BS × Int :=
  let t := layoutTable fields
  let (s, vtRef) := createCachedVtable s (vtableBytes t) (vtHashUpdate t.hash (2 * (t.idEnd + 2)) (t.data.length + 4))
  createTable s t vtRef

/-- the alignment `create_buffer` settles on: content, offset size, block alignment (`align_buffer_end`) -/
def bufAlign (s : BS) (align : Nat) : Nat := max (max align 4) (if s.blockAlign = 0 then 1 else s.blockAlign)

/-- `align_buffer_end` (only a top-level buffer pads the back) followed by `set_min_align` -/
def bufPrep (s : BS) (align : Nat) (nested : Bool) : BS :=
  let s := if nested then s else
    let endPad := backPad s align
    if endPad = 0 then s else (emitBack s (zeros endPad)).1
  setMinAlign s align

/-- the header `create_buffer` emits in front of everything: [size] root-offset [identifier] padding -/
def bufHeader (s : BS) (ident : List Nat) (rootRef : Int) (align : Nat) (nested : Bool) : List Nat :=
  let idOut := if ident.length = 4 ∧ ident ≠ [0, 0, 0, 0] then ident else []
  let sized := nested || s.withSize
  let headerPad := frontPad s (4 + idOut.length + (if s.withSize then 4 else 0)) align
  let len := (if sized then 4 else 0) + 4 + idOut.length + headerPad
  let bufferBase : Int := s.emitStart - (len : Nat) + (if sized then 4 else 0)
  let bufferSize := if nested then u32 (s.bufferMark - bufferBase) else u32 (s.emitEnd - bufferBase)
  (if sized then le32 bufferSize else []) ++ le32 (u32 (rootRef - bufferBase)) ++ idOut ++ zeros headerPad

/-- `flatcc_builder_create_buffer` -/
def createBuffer (s : BS) (ident : List Nat) (rootRef : Int) (align : Nat) (nested : Bool) : BS × Int :=
  let s1 := bufPrep s (bufAlign s align) nested
  emitFront s1 (bufHeader s1 ident rootRef (bufAlign s align) nested)

/-- `flatcc_builder_embed_buffer` called while a buffer frame is open (`B->level > 0`: inside the top-level buffer or a
nested one): the bytes become a nested buffer, wrapped in a ubyte vector -/
def embedBuffer (s : BS) (data : List Nat) (align blockAlign : Nat) (withSize : Bool) : BS × Int :=
  let blockAlign := if blockAlign ≠ 0 then blockAlign else if s.blockAlign ≠ 0 then s.blockAlign else 1
  let align := max (max align 4) blockAlign
  let s := setMinAlign s align
  let pad := frontPad s (data.length + (if withSize then 4 else 0)) align
  emitFront s (le32 (data.length + pad) ++ data ++ zeros pad)

/-- `flatcc_builder_start_buffer`: the parent's settings are saved in the frame (here: by the caller keeping the old
state); `is_top_buffer` is tested on the parent, so a buffer nested directly in the top-level buffer keeps the alignment
the parent has derived so far (over-aligned, still valid). `nest_id = nest_count++`. -/
def startBuffer (s : BS) (blockAlign : Nat) (withSize : Bool) : BS :=
  { s with minAlign := (if s.nestId ≠ 0 ∨ s.minAlign = 0 then 1 else s.minAlign), blockAlign := blockAlign, withSize := withSize,
           bufferMark := s.emitStart, nestId := s.nestCount, nestCount := s.nestCount + 1 }

/-- `flatcc_builder_end_buffer`: header, then the parent's settings are restored and `exit_frame` raises the parent's
min_align to this buffer's -/
def endBuffer (saved s : BS) (ident : List Nat) (rootRef : Int) : BS × Int :=
  let s := setMinAlign s s.blockAlign
  let (s3, r) := createBuffer s ident rootRef s.minAlign (s.nestId ≠ 0)
  ({ s3 with minAlign := max s3.minAlign saved.minAlign, blockAlign := saved.blockAlign, withSize := saved.withSize,
             bufferMark := saved.bufferMark, nestId := saved.nestId }, r)

/-! ## value trees (L2) -/

inductive Val
  | inl (size align : Nat) (bytes : List Nat)
  | str (bytes : List Nat)
  | vec (esz align : Nat) (bytes : List Nat)
  | ovec (items : List Val)
  | tab (fields : List (Nat × Val))
  | struct (align : Nat) (bytes : List Nat)        -- a separately created struct (union member)
  | ref (k : Nat)                                   -- the k-th created object again (shared)
  | null                                            -- null element of a union vector
  | nested (ident : List Nat) (withSize : Bool) (blockAlign : Nat) (root : Val)
  | union (type : Nat) (value : Val)                -- table field pair: value at id, type at id - 1
  | uvec (items : List (Nat × Val))                 -- table field pair: type vector at id - 1, value vector at id
  | embed (withSize : Bool) (blockAlign align : Nat) (bytes : List Nat)   -- flatcc_builder_embed_buffer
  deriving Repr, Inhabited

mutual
/-- create the children of a table (in field order) and collect the `table_add*` calls of its frame -/
partial def buildFields (s : BS) (fields : List (Nat × Val)) : BS × List (Nat × FieldVal) :=
  fields.foldl (fun (acc : BS × List (Nat × FieldVal)) f =>
      match f.2 with
      | .inl size align bytes => (acc.1, acc.2 ++ [(f.1, FieldVal.inl size align bytes)])
      | .union t v =>
        let (s, r) := buildVal acc.1 v
        (s, acc.2 ++ (if r = 0 then [] else [(f.1, FieldVal.off r)]) ++ [(f.1 - 1, FieldVal.inl 1 1 [t % 256])])
      | .uvec items =>
        let (s, refs) := items.foldl (fun (a : BS × List Int) it => let (s, r) := buildVal a.1 it.2; (s, a.2 ++ [r])) (acc.1, [])
        let (s, vr) := createOffsetVector s refs
        let (s, tr) := createVector s (items.map (fun it => it.1 % 256)) items.length 1
        (s, acc.2 ++ [(f.1 - 1, FieldVal.off tr), (f.1, FieldVal.off vr)])
      | v => let (s, r) := buildVal acc.1 v; (s, acc.2 ++ [(f.1, FieldVal.off r)])) (s, [])

/-- create the object for `v` (children first, in field / element order); returns its reference -/
partial def buildVal (s : BS) (v : Val) : BS × Int :=
  match v with
  | .inl _ _ _ => (s, 0)
  | .null => (s, 0)
  | .ref k => (s, s.refs.getD k 0)
  | .str b => let (s, r) := createString s b; (remember s r, r)
  | .vec esz align b => let (s, r) := createVector s b (if esz = 0 then 0 else b.length / esz) align; (remember s r, r)
  | .struct align b => let (s, r) := createStruct s b align; (remember s r, r)
  | .ovec items =>
    let (s, refs) := items.foldl (fun (acc : BS × List Int) it => let (s, r) := buildVal acc.1 it; (s, acc.2 ++ [r])) (s, [])
    let (s, r) := createOffsetVector s refs
    (remember s r, r)
  | .union _ v => buildVal s v
  | .uvec _ => (s, 0)
  | .embed withSize blockAlign align b => let (s, r) := embedBuffer s b align blockAlign withSize; (remember s r, r)
  | .tab fields =>
    let (s, fvs) := buildFields s fields
    let (s, r) := endTable s fvs
    (remember s r, r)
  | .nested ident withSize blockAlign root =>
    let s1 := startBuffer s blockAlign withSize
    let (s2, rootRef) := buildVal s1 root
    let (s3, r) := endBuffer s s2 ident rootRef
    (remember s3 r, r)
end

structure Config where
  ident : List Nat := []
  withSize : Bool := false
  blockAlign : Nat := 0
  clustering : Bool := true
  /-- the root table's children are created before `start_buffer` (allowed at the top level: the `X_create_as_root(B, child, ..)` pattern) -/
  pre : Bool := false
  deriving Repr

/-- a builder after `flatcc_builder_init` -/
def initBS : BS := { clustering := true }

/-- `flatcc_builder_custom_reset` (+ `flatcc_emitter_reset` for the emitted stream): every per-build field is cleared;
the settings (vtable clustering; cache limit and max level are not part of `BS`) stay -/
def resetBS (s : BS) : BS :=
  { s with front := [], back := [], minAlign := 0, blockAlign := 0, nestId := 0, nestCount := 0, bufferMark := 0,
           withSize := false, vtCache := [], refs := #[], emits := [] }

/-- `start_buffer … end_buffer` around a root object on a builder in state `s` -/
def preFields (cfg : Config) (root : Val) : Option (List (Nat × Val)) :=
  match cfg.pre, root with
  | true, .tab fields => some fields
  | _, _ => none

def buildFrom (s : BS) (cfg : Config) (root : Val) : List Nat × Nat × List (Int × Nat) :=
  let sc := { s with clustering := cfg.clustering }
  match preFields cfg root with
  | some fields =>
    let (sp, fvs) := buildFields sc fields
    let s0 := startBuffer sp cfg.blockAlign cfg.withSize
    let (s1, rootRef) := endTable s0 fvs
    let (s2, _) := endBuffer sp (remember s1 rootRef) cfg.ident rootRef
    (s2.front ++ s2.back, s2.minAlign, s2.emits.reverse)
  | none =>
    let s0 := startBuffer sc cfg.blockAlign cfg.withSize
    let (s1, rootRef) := buildVal s0 root
    let (s2, _) := endBuffer s s1 cfg.ident rootRef
    (s2.front ++ s2.back, s2.minAlign, s2.emits.reverse)

/-- a build on a freshly initialised builder: the finished bytes in address order, the reported alignment, the emit calls -/
def build (cfg : Config) (root : Val) : List Nat × Nat × List (Int × Nat) := buildFrom initBS cfg root

end Flatcc.Builder
