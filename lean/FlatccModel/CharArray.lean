import FlatccModel.Json
/-!
# Fixed-length char arrays in JSON: `flatcc_json_parser_char_array` and `print_char_array`

`flatcc_json_parser_char_array(ctx, buf, end, s, n)` (`src/runtime/json_parser.c`) fills the `n` bytes of a `[char:N]`
struct member from a JSON string. The model mirrors the C loop as written:

```
buf = string_start(buf);
if (buf != end) while (*buf != '"') {
    buf = string_part(mark = buf);  if (buf == end) return end;           -- unterminated / control character
    k = buf - mark;
    if (k > n) { if (!skip_array_overflow) return error(array_overflow); k = n; }
    memcpy(s, mark, k); s += k; n -= k;
    if (*buf == '"') break;
    buf = string_escape(buf, code); if (buf == end) return end;           -- invalid escape, or (!) escape ends the input
    k = code[0]; mark = code + 1;
    if (k > n) { ...same... }
    memcpy(s, mark, k); s += k; n -= k;
}
if (n != 0) { if (reject_array_underflow) return error(array_underflow); memset(s, 0, n); }
return string_end(buf);
```

The destination is NOT modelled as an array of N cells. It is the list of bytes stored so far (`St.written`) plus the C
variable `n` (`St.room`); `memcpy(s, mark, k)` appends exactly `k` bytes whatever `k` is (`memcpy` below returns `k`
bytes even if the source is shorter) and `n -= k` is a subtraction on the tracked variable only. That no copy ever exceeds
the array is a theorem (`CharArrayProofs.lean`), stated through the *checked* variant (`chk = true`) in which every store
is compared with the true array size `N` and yields `Err.writeOutside` when it does not fit.

`flatcc_json_parser_set_error` keeps the FIRST error: `pending` carries an error raised by `string_start` through the
tail of the function (which the C code still executes: zero fill + `string_end`).

Bytes are `Nat`s below 256; `decodeEscape` (= `flatcc_json_parser_string_escape`) is the one of `Json.lean`.
-/
namespace Flatcc.CharArray
open Flatcc.Json

structure Flags where
  /-- `flatcc_json_parser_f_skip_array_overflow`: truncate instead of failing -/
  skipOverflow : Bool
  /-- `flatcc_json_parser_f_reject_array_underflow`: fail instead of zero padding -/
  rejectUnderflow : Bool
deriving Repr, DecidableEq

inductive Err where
  | expectedString            -- `string_start`: no opening quote
  | unterminated              -- `string_part` / `string_end`: input ends inside the string
  | invalidChar               -- `string_part`: control character
  | invalidEscape             -- `string_escape`
  | overflow                  -- `flatcc_json_parser_error_array_overflow`
  | underflow                 -- `flatcc_json_parser_error_array_underflow`
  /-- `if (buf == end) return end;` behind a *successful* `string_escape`: the input ends right behind an escape sequence.
  The C function returns `end` WITHOUT recording an error and without filling the rest of the array; `written` is what
  it had stored by then. -/
  | silentEnd (written : List Nat)
  | writeOutside              -- only the checked variant: a store that does not fit the array (proved unreachable)
  | outOfFuel                 -- proved unreachable
deriving Repr, DecidableEq

/-- the destination: bytes stored so far (in order, from `s[0]` on) and the C variable `n` -/
structure St where
  written : List Nat
  room : Nat
deriving Repr, DecidableEq

abbrev Res := Except Err (List Nat × List Nat)

instance : DecidableEq Res := fun a b =>
  match a, b with
  | .ok x, .ok y => if h : x = y then isTrue (by rw [h]) else isFalse (fun e => h (by cases e; rfl))
  | .error x, .error y => if h : x = y then isTrue (by rw [h]) else isFalse (fun e => h (by cases e; rfl))
  | .ok _, .error _ => isFalse (fun e => by cases e)
  | .error _, .ok _ => isFalse (fun e => by cases e)

def zeros (n : Nat) : List Nat := List.replicate n 0

/-- `memcpy(_, src, k)`: exactly `k` bytes, whatever `k` is (bytes behind the source read as 0: never happens,
`memcpy_eq_take`) -/
def memcpy : List Nat → Nat → List Nat
  | _, 0 => []
  | [], k + 1 => 0 :: memcpy [] k
  | c :: r, k + 1 => c :: memcpy r k

/-- a store of `bytes` at `s`, then `s += k; n -= k`. With `chk` the store is first compared with the array: it must fit
both the tracked `n` (else `n -= k` wraps around in C) and the real array of `N` bytes. -/
def write (chk : Bool) (N : Nat) (st : St) (bytes : List Nat) : Except Err St :=
  if chk && (decide (bytes.length > st.room) || decide (st.written.length + bytes.length > N)) then .error .writeOutside
  else .ok ⟨st.written ++ bytes, st.room - bytes.length⟩

/-- `if (k > n) { if (!skip_array_overflow) return error; k = n; } memcpy(s, mark, k); s += k; n -= k;` -/
def copy (chk : Bool) (N : Nat) (f : Flags) (st : St) (mark : List Nat) (k : Nat) : Except Err St :=
  if k > st.room then
    if f.skipOverflow then write chk N st (memcpy mark st.room) else .error .overflow
  else write chk N st (memcpy mark k)

/-- `set_error` keeps the first error -/
def setErr (pending : Option Err) (e : Err) : Err := pending.getD e

/-- `flatcc_json_parser_string_end` -/
def stringEnd (pending : Option Err) (st : St) (buf : List Nat) : Res :=
  match pending with
  | some e => .error e
  | none =>
    match buf with
    | [] => .error .unterminated
    | c :: r => if c = 34 then .ok (st.written, r) else .error .unterminated

/-- behind the loop: `if (n != 0) { if (reject_array_underflow) return error; memset(s, 0, n); } return string_end(buf);` -/
def finish (chk : Bool) (N : Nat) (f : Flags) (pending : Option Err) (st : St) (buf : List Nat) : Res :=
  if st.room ≠ 0 then
    if f.rejectUnderflow then .error (setErr pending .underflow)
    else
      match write chk N st (zeros st.room) with
      | .error e => .error e
      | .ok st' => stringEnd pending st' buf
  else stringEnd pending st buf

/-- bytes `string_part` runs over: anything but the quote, the backslash and control characters -/
def plain (c : Nat) : Bool := c != 34 && decide (32 ≤ c) && c != 92

/-- `flatcc_json_parser_string_part`: length of the plain run at the start of `buf` -/
def runLen : List Nat → Nat
  | [] => 0
  | c :: r => if plain c then runLen r + 1 else 0

/-- outcome of one round of the `while` loop -/
inductive Step where
  | done (r : Res)
  | more (buf : List Nat) (st : St)

/-- behind `string_escape`: `esc` is its result on the text behind the backslash -/
def afterEscape (chk : Bool) (N : Nat) (f : Flags) (st : St) (esc : Option (List Nat × List Nat)) : Step :=
  match esc with
  | none => .done (.error .invalidEscape)
  | some (code, buf2) =>
    if buf2.isEmpty then .done (.error (.silentEnd st.written))          -- `if (buf == end) return end;`
    else
      match copy chk N f st code code.length with                         -- k = code[0]; mark = code + 1
      | .error e => .done (.error e)
      | .ok st2 => .more buf2 st2

/-- behind `string_part`, which stopped `k` bytes behind `mark` -/
def afterPart (chk : Bool) (N : Nat) (f : Flags) (st : St) (mark : List Nat) (k : Nat) : Step :=
  match mark.drop k with
  | [] => .done (.error .unterminated)                                    -- string_part: buf == end
  | c :: r1 =>
    if c < 32 then .done (.error .invalidChar)                            -- string_part: control character
    else
      match copy chk N f st mark k with
      | .error e => .done (.error e)
      | .ok st1 =>
        if c = 34 then .done (finish chk N f none st1 (c :: r1))          -- `if (*buf == '"') break;`
        else if c = 92 then afterEscape chk N f st1 (decodeEscape r1)
        else .done (.error .invalidEscape)                                -- string_escape: buf[0] != '\\' (unreachable)

/-- the loop condition `*buf != '"'` and one round. The C code dereferences `buf` here: it is never at the end of the
input (`step_more_nonempty`); the model answers `unterminated` for an empty `buf`. -/
def step (chk : Bool) (N : Nat) (f : Flags) (buf : List Nat) (st : St) : Step :=
  match buf with
  | [] => .done (.error .unterminated)
  | c :: _ => if c = 34 then .done (finish chk N f none st buf) else afterPart chk N f st buf (runLen buf)

def loop (chk : Bool) (N : Nat) (f : Flags) : Nat → List Nat → St → Res
  | 0, _, _ => .error .outOfFuel
  | fuel + 1, buf, st =>
    match step chk N f buf st with
    | .done r => r
    | .more buf' st' => loop chk N f fuel buf' st'

/-- the whole function; `text` starts where the opening quote is expected -/
def run (chk : Bool) (N : Nat) (f : Flags) (text : List Nat) : Res :=
  match text with
  | [] => finish chk N f (some .expectedString) ⟨[], N⟩ []
  | c :: r =>
    if c = 34 then
      (if r.isEmpty then finish chk N f none ⟨[], N⟩ []                   -- `if (buf != end)` skips the loop
       else loop chk N f (r.length + 1) r ⟨[], N⟩)
    else finish chk N f (some .expectedString) ⟨[], N⟩ []                 -- string_start failed: buf = end

/-- **`flatcc_json_parser_char_array`** on an array of `N` bytes: the bytes stored (in order) and the input behind the
closing quote -/
def charArray (N : Nat) (f : Flags) (text : List Nat) : Res := run false N f text

/-- the same with every store checked against the array (`Err.writeOutside` when it does not fit) -/
def charArrayG (N : Nat) (f : Flags) (text : List Nat) : Res := run true N f text

/-! ## printer side: `print_char_array` (`src/runtime/json_printer.c`)

"trailing nulls are stripped", then exactly `print_string`: embedded NULs and the other control characters, the quote
and the backslash are escaped. -/

/-- `while (n > 0 && s[n - 1] == '\0') --n;` -/
def stripZeros : List Nat → List Nat
  | [] => []
  | c :: r => if c = 0 ∧ (stripZeros r).isEmpty then [] else c :: stripZeros r

def printCharArray (a : List Nat) : List Nat := printString (stripZeros a)

/-- what the theorems say `charArray` answers when the text is a well-formed string with content `s` -/
def specResult (N : Nat) (f : Flags) (s rest : List Nat) : Res :=
  if s.length > N ∧ f.skipOverflow = false then .error .overflow
  else if s.length < N ∧ f.rejectUnderflow = true then .error .underflow
  else .ok (s.take N ++ zeros (N - s.length), rest)

end Flatcc.CharArray
