import FlatccModel.Generated.Consts
/-!
# `analyze_struct` (src/compiler/semantics.c): depth-first analysis of the struct reference graph with
open / closed marks and a nesting limit

Structs are numbered in declaration order. `refs i` lists, in member order, `some j` for a member whose type is
struct `j` and `none` for scalar / enum members. The model keeps what decides acceptance: the open set, the closing
order, the first diagnostic.
-/
namespace Flatcc.StructGraph

inductive Diag | circular | deep | empty
  deriving DecidableEq, Repr

structure St where
  opened : List Nat := []
  order : List Nat := []          -- closed structs, in closing order (`P->schema.ordered_structs`, oldest first)
  diags : List Diag := []
  deriving Repr

abbrev Graph := List (List (Option Nat))

def members (g : Graph) (i : Nat) : List (Option Nat) := g.getD i []

/-- the member loop of `analyze_struct`; `recur level j st` is the recursive `analyze_struct` call -/
def goMembers (recur : Nat → Nat → St → St × Bool) (level : Nat) : List (Option Nat) → St → St × Bool
  | [], st => (st, true)
  | m :: ms, st =>
    if level ≥ Flatcc.Consts.nestingMax then ({ st with diags := st.diags ++ [.deep] }, false)
    else
      match m with
      | none => goMembers recur level ms st
      | some j =>
        if j ∈ st.opened then ({ st with diags := st.diags ++ [.circular] }, false)
        else if j ∈ st.order then goMembers recur level ms st
        else
          match recur (level + 1) j st with
          | (st, false) => (st, false)
          | (st, true) => goMembers recur level ms st

/-- `analyze_struct(P, ct)` at nesting level `level`; `false` = returned -1. `fuel` bounds the recursion depth (the
nesting limit bounds it in the C code: see `ainv` in StructGraphProofs). -/
def analyze (g : Graph) : Nat → Nat → Nat → St → St × Bool
  | 0, _, _, st => (st, false)
  | fuel + 1, level, i, st =>
    if i ∈ st.opened then (st, false)                 -- left open by a failed analysis: already reported
    else if i ∈ st.order then (st, true)
    else
      let st := { st with opened := i :: st.opened }
      match goMembers (analyze g fuel) level (members g i) st with
      | (st, false) => (st, false)
      | (st, true) =>
        if (members g i).isEmpty then ({ st with diags := st.diags ++ [.empty] }, false)
        else ({ st with opened := st.opened.erase i, order := st.order ++ [i] }, true)

/-- the schema-level loop: every struct in declaration order -/
def analyzeAll (g : Graph) : St :=
  (List.range g.length).foldl (fun st i => (analyze g (Flatcc.Consts.nestingMax + 2) 0 i st).1) {}

end Flatcc.StructGraph
