/-! Calibration: executable model of flatcc's JSON-parser trie generator (codegen_c_json_parser.c) + evaluator. -/
namespace Flatcc.TrieGen

abbrev Key := List Nat   -- bytes

inductive Tree
  | lt (tag : Nat) (l r : Tree)
  | eqm (mask tag : Nat) (t e : Tree)
  | matchAt (idx n : Nat) (fail : Tree)   -- terminator test at window offset n
  | descend (t : Tree)
  | unmatched
  | bug (msg : String)
  deriving Repr, Inhabited

def byteAt (k : Key) (i : Nat) : Nat := k.getD i 0

/-- get_dict_tag: returns (n, tag, mask) -/
def dictTag (k : Key) (pos : Nat) : Nat × Nat × Nat :=
  if pos > k.length then (0, 0, 0) else
  let n := min 8 (k.length - pos)
  let tag := (List.range n).foldl (fun w i => w + byteAt k (pos + i) * 2 ^ (56 - 8 * i)) 0
  let mask := 2^64 - 2^(8 * (8 - n))
  (n, tag, mask)

def suffixLen (k : Key) (pos : Nat) : Nat := if pos + 8 > k.length then 0 else k.length - pos - 8
def tagLen (k : Key) (pos : Nat) : Nat := if pos + 8 ≥ k.length then k.length - pos else 0

def xorAnd (wf wg m : Nat) : Nat := (wf ^^^ wg) &&& m

def splitLeft (d : Array Key) (a b pos : Nat) : Nat := Id.run do
  let mut m := a + (b - a) / 2
  let mut fuel := b + 1
  while m > a && fuel > 0 do
    fuel := fuel - 1
    let (_, wf, wmf) := dictTag d[m-1]! pos
    let (_, wg, _) := dictTag d[m]! pos
    if xorAnd wf wg wmf != 0 then return m
    m := m - 1
  return m

def splitRight (d : Array Key) (a b pos : Nat) : Nat := Id.run do
  let mut m := a + (b - a) / 2
  let mut fuel := b + 1
  while m < b && fuel > 0 do
    fuel := fuel - 1
    let (_, wf, wmf) := dictTag d[m]! pos
    let (_, wg, _) := dictTag d[m+1]! pos
    if xorAnd wf wg wmf != 0 then return m + 1
    m := m + 1
  return m + 1

def splitDescend (d : Array Key) (a b pos : Nat) : Nat := Id.run do
  let mut a := a
  let mut fuel := b + 2
  while a ≤ b && fuel > 0 do
    fuel := fuel - 1
    if 0 < suffixLen d[a]! pos then return a
    a := a + 1
  return a

/-- gen_prefix_trie with the failure continuation made explicit -/
partial def genPrefix (d : Array Key) (a b pos : Nat) (fail : Tree) : Tree :=
  let m := a + (b - a + 1) / 2
  let (n, tag, mask) := dictTag d[m]! pos
  let mask' := if n == 8 then 2^64 - 1 else mask
  if m == a then
    .eqm mask' tag (.matchAt m n fail) fail
  else
    let thenB := if m == b then .matchAt m n fail else genPrefix d m b pos fail
    .eqm mask' tag thenB (genPrefix d a (m - 1) pos fail)

partial def genTrie (d : Array Key) (a b pos : Nat) : Tree :=
  if suffixLen d[a]! pos == 0 && (b == a || (b == a + 1 && suffixLen d[b]! pos == 0)) then
    genPrefix d a b pos .unmatched
  else
    let x := splitLeft d a b pos
    if x > a then
      let (_, tag, _) := dictTag d[x]! pos
      .lt tag (genTrie d a (x - 1) pos) (genTrie d x b pos)
    else
      let x := splitRight d a b pos
      let k := splitDescend d a (x - 1) pos
      let hasDescend := k < x
      let hasPrefixKey := hasDescend && k > a && tagLen d[k-1]! pos == 8
      let k' := if hasPrefixKey then k - 1 else k
      -- the part after the descend block
      let rest : Tree := if x ≤ b then genTrie d x b pos else .unmatched
      let prefixGuard := a < k' && x ≤ b
      let afterDescend : Tree :=
        if a < k' then genPrefix d a (k' - 1) pos (if prefixGuard then rest else .unmatched)
        else if x ≤ b then rest
        else if a ≥ k' then .unmatched else .bug "no branch"
      if hasDescend then
        let (_, tag, _) := dictTag d[k]! pos
        let inner := .descend (genTrie d k (x - 1) (pos + 8))
        let thenB := if hasPrefixKey then .matchAt (k - 1) 8 inner else inner
        .eqm (2^64 - 1) tag thenB afterDescend
      else afterDescend

/-- symbol_part: 8 bytes big endian from s at offset off, zero padded -/
def symbolPart (s : List Nat) (off : Nat) : Nat :=
  (List.range 8).foldl (fun w i => w + (s.getD (off + i) 0) * 2 ^ (56 - 8 * i)) 0

def term : Nat := 34  -- '"'

partial def eval (t : Tree) (s : List Nat) (off : Nat) : Option Nat :=
  let w := symbolPart s off
  match t with
  | .lt tag l r => if w < tag then eval l s off else eval r s off
  | .eqm mask tag th el => if w &&& mask == tag then eval th s off else eval el s off
  | .matchAt idx n fail =>
      if s.length - off ≤ n then eval fail s off
      else if s.getD (off + n) 0 == term then some idx else eval fail s off
  | .descend t => eval t s (off + 8)
  | .unmatched => none
  | .bug _ => some 999999

def spec (d : Array Key) (s : List Nat) : Option Nat :=
  (List.range d.size).find? (fun i => let k := d[i]!; s.length > k.length && s.take k.length == k && s.getD k.length 0 == term)

def keyLe (a b : Key) : Bool := -- dict_cmp: memcmp on common prefix then length
  let n := min a.length b.length
  let rec go (i : Nat) (fuel : Nat) : Bool :=
    match fuel with
    | 0 => a.length ≤ b.length
    | fuel+1 => if i ≥ n then a.length ≤ b.length else
      if byteAt a i < byteAt b i then true else if byteAt a i > byteAt b i then false else go (i+1) fuel
  go 0 (n+1)

def sortKeys (ks : List Key) : Array Key := (ks.toArray.qsort (fun a b => keyLe a b && a != b)).toList.eraseDups.toArray

def str (s : String) : Key := s.toUTF8.toList.map (·.toNat)

/-- test inputs for a dictionary: each key and near-misses, followed by terminator and junk tails -/
def inputsFor (d : Array Key) : List (List Nat) :=
  let tails : List (List Nat) := [[], [58], [58, 49, 50, 51, 52, 53, 54, 55, 56, 57], [255,255,255,255,255,255,255,255,255], [0,0,0,0,0,0,0,0,0], [97,97,97,97,97,97,97,97,97]]
  let alph : List Nat := [97, 98, 95, 255, 0, 34]
  d.toList.flatMap fun k =>
    let variants : List Key :=
      [k, k.dropLast] ++ alph.map (fun c => k ++ [c]) ++
      (List.range k.length).flatMap (fun i => alph.map (fun c => k.set i c))
    variants.flatMap fun v => tails.map fun t => v ++ [term] ++ t

def checkDict (ks : List Key) : List String :=
  let d := sortKeys ks
  if d.size == 0 then [] else
  let t := genTrie d 0 (d.size - 1) 0
  (inputsFor d).filterMap fun s =>
    let r := eval t s 0
    let e := spec d s
    if r == e then none else some s!"dict={repr d} input={repr s} got={repr r} want={repr e}"

end Flatcc.TrieGen
