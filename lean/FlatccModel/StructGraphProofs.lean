import FlatccModel.StructGraph
/-! Proofs about `analyze_struct`'s model: the closing order is topological, failures leave a diagnostic. -/
namespace Flatcc.StructGraph

/-- every closed struct refers only to structs closed before it: the closing order is a topological order -/
def Topo (g : Graph) (order : List Nat) : Prop :=
  ∀ k (hk : k < order.length), ∀ j, some j ∈ members g order[k] → j ∈ order.take k

theorem topo_snoc (g : Graph) (L : List Nat) (i : Nat) (h : Topo g L) (hi : ∀ j, some j ∈ members g i → j ∈ L) :
    Topo g (L ++ [i]) := by
  intro k hk j hj
  by_cases hlt : k < L.length
  · rw [List.getElem_append_left hlt] at hj
    rw [List.take_append_of_le_length (by omega)]
    exact h k hlt j hj
  · have hk' : k = L.length := by simp at hk; omega
    subst hk'
    simp at hj ⊢
    exact hi j hj

theorem topo_nil (g : Graph) : Topo g [] := by intro k hk; simp at hk

def ASound (g : Graph) (fuel : Nat) : Prop :=
  ∀ level i st st' b, Topo g st.order → analyze g fuel level i st = (st', b) →
    Topo g st'.order ∧ st.order <+: st'.order ∧ (b = true → i ∈ st'.order)

def MSound (g : Graph) (fuel : Nat) : Prop :=
  ∀ level ms st st' b, Topo g st.order → goMembers (analyze g fuel) level ms st = (st', b) →
    Topo g st'.order ∧ st.order <+: st'.order ∧ (b = true → ∀ j, some j ∈ ms → j ∈ st'.order)

theorem mem_of_prefix {a b : List Nat} (h : a <+: b) {x : Nat} (hx : x ∈ a) : x ∈ b := by
  obtain ⟨t, rfl⟩ := h; simp [hx]

theorem msound_of_asound (g : Graph) (fuel : Nat) (ha : ASound g fuel) : MSound g fuel := by
  intro level ms
  induction ms with
  | nil =>
    intro st st' b ht h
    simp only [goMembers] at h
    injection h with h1 _; subst h1
    exact ⟨ht, List.prefix_refl _, fun _ => by simp⟩
  | cons m ms ih =>
    intro st st' b ht h
    unfold goMembers at h
    split at h
    · injection h with h1 h2; subst h1; subst h2
      exact ⟨ht, List.prefix_refl _, (fun h => by cases h)⟩
    · cases m with
      | none =>
        obtain ⟨t, hp, hm⟩ := ih st st' b ht h
        exact ⟨t, hp, fun hb j hj => by simp at hj; exact hm hb j hj⟩
      | some j =>
        simp only at h
        split at h
        · injection h with h1 h2; subst h1; subst h2
          exact ⟨ht, List.prefix_refl _, (fun h => by cases h)⟩
        · split at h
          · rename_i hjo
            obtain ⟨t, hp, hm⟩ := ih st st' b ht h
            refine ⟨t, hp, fun hb x hx => ?_⟩
            simp at hx
            rcases hx with hx | hx
            · subst hx; exact mem_of_prefix hp hjo
            · exact hm hb x hx
          · split at h
            · rename_i st1 hres
              injection h with h1 h2; subst h1; subst h2
              obtain ⟨t1, hp1, _⟩ := ha (level + 1) j st st1 false ht hres
              exact ⟨t1, hp1, (fun h => by cases h)⟩
            · rename_i st1 hres
              obtain ⟨t1, hp1, hj1⟩ := ha (level + 1) j st st1 true ht hres
              obtain ⟨t, hp, hm⟩ := ih st1 st' b t1 h
              refine ⟨t, List.IsPrefix.trans hp1 hp, fun hb x hx => ?_⟩
              simp at hx
              rcases hx with hx | hx
              · subst hx; exact mem_of_prefix hp (hj1 rfl)
              · exact hm hb x hx

theorem asound_succ (g : Graph) (fuel : Nat) (hm : MSound g fuel) : ASound g (fuel + 1) := by
  intro level i st st' b ht h
  simp only [analyze] at h
  split at h
  · injection h with h1 h2; subst h1; subst h2
    exact ⟨ht, List.prefix_refl _, (fun h => by cases h)⟩
  · split at h
    · rename_i hio
      injection h with h1 _; subst h1
      exact ⟨ht, List.prefix_refl _, fun _ => hio⟩
    · split at h
      · rename_i st1 hres
        injection h with h1 h2; subst h1; subst h2
        obtain ⟨t1, hp1, _⟩ := hm level (members g i) { st with opened := i :: st.opened } st1 false ht hres
        exact ⟨t1, hp1, (fun h => by cases h)⟩
      · rename_i st1 hres
        obtain ⟨t1, hp1, hall⟩ := hm level (members g i) { st with opened := i :: st.opened } st1 true ht hres
        simp only at t1 hall hp1
        split at h
        · injection h with h1 h2; subst h1; subst h2
          exact ⟨t1, hp1, (fun h => by cases h)⟩
        · injection h with h1 h2; subst h1
          refine ⟨topo_snoc g _ i t1 (hall trivial), ?_, fun _ => by simp⟩
          exact List.IsPrefix.trans hp1 (List.prefix_append _ _)

theorem asound (g : Graph) : ∀ fuel, ASound g fuel
  | 0 => by
    intro level i st st' b ht h
    simp only [analyze] at h
    injection h with h1 h2; subst h1; subst h2
    exact ⟨ht, List.prefix_refl _, (fun h => by cases h)⟩
  | fuel + 1 => asound_succ g fuel (msound_of_asound g fuel (asound g fuel))
end Flatcc.StructGraph

namespace Flatcc.StructGraph
open Flatcc.Consts

def AInv (g : Graph) (f : Nat) : Prop :=
  ∀ level i st st' b, level ≤ nestingMax → level + f ≥ nestingMax + 2 → analyze g f level i st = (st', b) →
    (b = true → st'.opened = st.opened ∧ st'.diags = st.diags) ∧
    (b = false → (i ∈ st.opened ∧ st' = st) ∨ st.diags.length < st'.diags.length)

def MInv (g : Graph) (f : Nat) : Prop :=
  ∀ level ms st st' b, level + f ≥ nestingMax + 1 → goMembers (analyze g f) level ms st = (st', b) →
    (b = true → st'.opened = st.opened ∧ st'.diags = st.diags) ∧
    (b = false → st.diags.length < st'.diags.length)

theorem minv_of_ainv (g : Graph) (f : Nat) (ha : AInv g f) : MInv g f := by
  intro level ms
  induction ms with
  | nil =>
    intro st st' b _ h
    simp only [goMembers] at h
    injection h with h1 h2; subst h1; subst h2
    exact ⟨fun _ => ⟨rfl, rfl⟩, (fun h => by cases h)⟩
  | cons m ms ih =>
    intro st st' b hf h
    unfold goMembers at h
    split at h
    · injection h with h1 h2; subst h1; subst h2
      exact ⟨(fun h => by cases h), fun _ => by simp⟩
    · rename_i hlev
      cases m with
      | none => exact ih st st' b hf h
      | some j =>
        simp only at h
        split at h
        · injection h with h1 h2; subst h1; subst h2
          exact ⟨(fun h => by cases h), fun _ => by simp⟩
        · split at h
          · exact ih st st' b hf h
          · rename_i hjo hjc
            split at h
            · rename_i st1 hres
              injection h with h1 h2; subst h1; subst h2
              have := (ha (level + 1) j st st1 false (by omega) (by omega) hres).2 rfl
              refine ⟨(fun h => by cases h), fun _ => ?_⟩
              rcases this with h | h
              · exact absurd h.1 hjo
              · exact h
            · rename_i st1 hres
              have h1 := (ha (level + 1) j st st1 true (by omega) (by omega) hres).1 rfl
              have h2 := ih st1 st' b hf h
              rw [h1.1, h1.2] at h2
              exact h2

theorem ainv_succ (g : Graph) (f : Nat) (hm : MInv g f) : AInv g (f + 1) := by
  intro level i st st' b hl hf h
  simp only [analyze] at h
  split at h
  · rename_i hio
    injection h with h1 h2; subst h1; subst h2
    exact ⟨(fun h => by cases h), fun _ => Or.inl ⟨hio, rfl⟩⟩
  · split at h
    · injection h with h1 h2; subst h1; subst h2
      exact ⟨fun _ => ⟨rfl, rfl⟩, (fun h => by cases h)⟩
    · rename_i hio hic
      split at h
      · rename_i st1 hres
        injection h with h1 h2; subst h1; subst h2
        have := (hm level (members g i) { st with opened := i :: st.opened } st1 false (by omega) hres).2 rfl
        exact ⟨(fun h => by cases h), fun _ => Or.inr this⟩
      · rename_i st1 hres
        have h1 := (hm level (members g i) { st with opened := i :: st.opened } st1 true (by omega) hres).1 rfl
        simp only at h1
        split at h
        · injection h with e1 e2; subst e1; subst e2
          refine ⟨(fun h => by cases h), fun _ => Or.inr ?_⟩
          simp [h1.2]
        · injection h with e1 e2; subst e1; subst e2
          refine ⟨fun _ => ⟨?_, h1.2⟩, (fun h => by cases h)⟩
          simp only [h1.1]
          simp

theorem ainv (g : Graph) : ∀ f, AInv g f
  | 0 => by
    -- fuel 0 would need a level above the nesting limit, where the member loop has already refused
    intro level i st st' b hl hf h
    omega
  | f + 1 => ainv_succ g f (minv_of_ainv g f (ainv g f))
end Flatcc.StructGraph

namespace Flatcc.StructGraph
open Flatcc.Consts

/-- the loop invariant of the schema-level pass -/
def Good (g : Graph) (st : St) (k : Nat) : Prop :=
  Topo g st.order ∧ (st.diags = [] → st.opened = [] ∧ ∀ i, i < k → i ∈ st.order)

theorem good_step (g : Graph) (st : St) (k : Nat) (h : Good g st k) :
    Good g (analyze g (nestingMax + 2) 0 k st).1 (k + 1) := by
  obtain ⟨st', b, hres⟩ : ∃ st' b, analyze g (nestingMax + 2) 0 k st = (st', b) := ⟨_, _, rfl⟩
  rw [hres]
  obtain ⟨t, hp, hin⟩ := asound g _ 0 k st st' b h.1 hres
  obtain ⟨hok, hfail⟩ := ainv g _ 0 k st st' b (by omega) (by omega) hres
  refine ⟨t, fun hd => ?_⟩
  cases b with
  | true =>
    obtain ⟨ho, hdg⟩ := hok rfl
    have hd0 : st.diags = [] := by rw [← hdg]; exact hd
    obtain ⟨hop, hall⟩ := h.2 hd0
    refine ⟨by simp only [ho, hop], fun i hi => ?_⟩
    by_cases hik : i = k
    · subst hik; exact hin rfl
    · exact mem_of_prefix hp (hall i (by omega))
  | false =>
    -- a failure leaves a diagnostic (the struct cannot be open here: no diagnostic so far means nothing is open)
    exfalso
    rcases hfail rfl with ⟨ho, he⟩ | hl
    · subst he
      have := (h.2 hd).1; rw [this] at ho; simp at ho
    · rw [hd] at hl; simp at hl
end Flatcc.StructGraph

namespace Flatcc.StructGraph
open Flatcc.Consts

theorem good_fold (g : Graph) (n : Nat) :
    Good g ((List.range n).foldl (fun st i => (analyze g (nestingMax + 2) 0 i st).1) {}) n := by
  induction n with
  | zero => exact ⟨topo_nil g, fun _ => ⟨rfl, fun i hi => by omega⟩⟩
  | succ k ih =>
    rw [List.range_succ, List.foldl_append]
    simp only [List.foldl_cons, List.foldl_nil]
    exact good_step g _ k ih
end Flatcc.StructGraph
