/-!
# Runtime verifier (`src/runtime/verifier.c`) and the call lists of generated verifiers

Function-by-function model.  C `uoffset_t` arithmetic is `Nat` with explicit `w32`; `voffset_t` with
`w16`.  The buffer is a function `Nat → Nat` (byte at offset) with size `n` (`end` in the C code)
and `A` = address of the buffer start.  Every byte the *verifier itself* reads goes through the
guarded readers `rd8/rd16/rd32`, which fail with `.oob` outside `[0, n)`: the C code reads
unguarded, so "the model never yields `.oob`" is the verifier's own memory safety.

A schema is seen the way the runtime sees it: as the descriptor (call list) of each generated
table verifier and union verifier (`Schema`).
-/
namespace Flatcc.Verifier

def w32 (x : Nat) : Nat := x % 4294967296
def w16 (x : Nat) : Nat := x % 65536
/-- `a - b` in `uoffset_t` arithmetic (both operands below 2^32) -/
def sub32 (a b : Nat) : Nat := (a + 4294967296 - b) % 4294967296

inductive VErr | oob | reject | fuel
  deriving DecidableEq, Repr

structure Ctx where
  buf : Nat → Nat      -- byte at offset i (meaningful for i < n)
  n   : Nat            -- buffer size
  A   : Nat            -- address of byte 0

abbrev V := Except VErr

def rd8 (c : Ctx) (i : Nat) : V Nat := if i < c.n then .ok (c.buf i % 256) else .error .oob
def rd16 (c : Ctx) (i : Nat) : V Nat :=
  if i + 2 ≤ c.n then .ok (c.buf i % 256 + 256 * (c.buf (i+1) % 256)) else .error .oob
def rd32 (c : Ctx) (i : Nat) : V Nat :=
  if i + 4 ≤ c.n then
    .ok (c.buf i % 256 + 256 * (c.buf (i+1) % 256) + 65536 * (c.buf (i+2) % 256) + 16777216 * (c.buf (i+3) % 256))
  else .error .oob

def guard' (b : Bool) : V Unit := if b then .ok () else .error .reject

/-- members of a union as the generated `<U>_union_verifier` switch sees them -/
inductive Member
  | table (t : Nat)
  | struct (size align : Nat)
  | string
  deriving Repr

/-- one call in a generated table verifier -/
inductive Kind
  | scalar (size align : Nat)               -- flatcc_verify_field (scalars, enums, structs)
  | string                                  -- flatcc_verify_string_field
  | vector (esz align maxc : Nat)           -- flatcc_verify_vector_field
  | stringVector                            -- flatcc_verify_string_vector_field
  | table (t : Nat)                         -- flatcc_verify_table_field
  | tableVector (t : Nat)                   -- flatcc_verify_table_vector_field
  | union (u : Nat)                         -- flatcc_verify_union_field
  | unionVector (u : Nat)                   -- flatcc_verify_union_vector_field
  | nestedTable (t align : Nat)             -- flatcc_verify_table_as_nested_root (`align` = the argument the generated call passes)
  | nestedStruct (size align : Nat)         -- flatcc_verify_struct_as_nested_root
  deriving Repr

structure Field where
  id : Nat
  required : Bool
  kind : Kind
  deriving Repr

structure Schema where
  tables : List (List Field)                 -- table index → call list
  unions : List (List (Nat × Member))        -- union index → (type code, member)
  deriving Repr

def Schema.table (S : Schema) (t : Nat) : List Field := S.tables.getD t []
def Schema.union (S : Schema) (u : Nat) : List (Nat × Member) := S.unions.getD u []

def lookupMember : List (Nat × Member) → Nat → Option Member
  | [], _ => none
  | (c, m) :: r, ty => if c = ty then some m else lookupMember r ty

/-- `flatcc_table_verifier_descriptor_t` -/
structure TD where
  table : Nat
  vtable : Nat
  vsize : Nat
  tsize : Nat
  ttl : Int

/-- `check_header(end, base, offset)` -/
def checkHeader (e base offset : Nat) : Bool :=
  let k := w32 (base + offset)
  decide (k > base) && decide (k + 4 ≤ e) && decide (k % 4 = 0)

/-- `verify_struct(buf, end, base, offset, size, align)`: alignment of the *absolute address* (low 32 bits, as the C code computes it) -/
def verifyStruct (c : Ctx) (e base offset size align : Nat) : V Unit :=
  guard' (!(decide (offset = 0) || decide (base > e) || decide (offset > e - base))) >>= fun _ =>
  guard' (decide (w32 (base + offset + size) ≥ base + offset)) >>= fun _ =>
  guard' (decide (w32 (base + offset + size) ≤ e)) >>= fun _ =>
  guard' (decide (w32 (w32 c.A + w32 (base + offset)) % align = 0))

/-- a nested buffer as the verifier sees it: its own byte 0, size and address (`buf`, `bufsiz` of the nested-root functions) -/
def sub (c : Ctx) (s len : Nat) : Ctx := { buf := fun i => c.buf (s + i), n := len, A := c.A + s }

/-- `read_vt_entry(td, id)` -/
def readVtEntry (c : Ctx) (td : TD) (id : Nat) : V Nat :=
  let vo := w16 ((id + 2) * 2)
  if vo ≥ td.vsize then .ok 0 else rd16 c (td.vtable + vo)

/-- `verify_field(td, id, required, size, align)`: alignment of the *absolute address* -/
def verifyField (c : Ctx) (td : TD) (id : Nat) (required : Bool) (size align : Nat) : V Unit :=
  readVtEntry c td id >>= fun vte =>
  if vte = 0 then guard' (!required) else
    guard' (decide (vte + size ≤ td.tsize)) >>= fun _ =>
    guard' (decide (w32 (vte + td.table + w32 c.A) % align = 0))

/-- `get_offset_field(td, id, required, &out)`: `none` = absent -/
def getOffsetField (c : Ctx) (td : TD) (id : Nat) (required : Bool) : V (Option Nat) :=
  readVtEntry c td id >>= fun vte =>
  if vte = 0 then
    guard' (!required) >>= fun _ => pure none
  else
    guard' (decide (vte + 4 ≤ td.tsize)) >>= fun _ =>
    guard' (decide ((vte + td.table) % 4 = 0)) >>= fun _ =>
    pure (some (vte + td.table))

/-- `verify_string(buf, end, base, offset)` -/
def verifyString (c : Ctx) (base offset : Nat) : V Unit :=
  guard' (checkHeader c.n base offset) >>= fun _ =>
  rd32 c (w32 (base + offset)) >>= fun n =>
  guard' (decide (sub32 c.n (w32 (w32 (base + offset) + 4)) > n)) >>= fun _ =>
  rd8 c (w32 (w32 (base + offset) + 4) + n) >>= fun z =>
  guard' (z == 0)

/-- `verify_vector(buf, end, base, offset, elem_size, align, max_count)`; returns the element count -/
def verifyVector (c : Ctx) (base offset esz align maxc : Nat) : V Nat :=
  guard' (checkHeader c.n base offset) >>= fun _ =>
  rd32 c (w32 (base + offset)) >>= fun n =>
  let b := w32 (w32 (base + offset) + 4)
  let al := if n = 0 then 4 else align
  -- alignment of the absolute address `(uoffset_t)(size_t)buf + base`
  guard' (decide (w32 (w32 c.A + b) % al = 0) && decide (w32 (w32 c.A + b) % 4 = 0)) >>= fun _ =>
  guard' (decide (n ≤ maxc)) >>= fun _ =>
  guard' (decide (sub32 c.n b ≥ w32 (n * esz))) >>= fun _ =>
  pure n

/-- the loop of `verify_string_vector` over `cnt` remaining elements starting at slot `base` -/
def verifyStrings (c : Ctx) : Nat → Nat → V Unit
  | 0, _ => .ok ()
  | cnt+1, base =>
    rd32 c base >>= fun o =>
    verifyString c base o >>= fun _ =>
    verifyStrings c cnt (w32 (base + 4))

def verifyStringVector (c : Ctx) (base offset : Nat) : V Unit :=
  verifyVector c base offset 4 4 1073741823 >>= fun n =>
  verifyStrings c n (w32 (w32 (base + offset) + 4))

def countMax (esz : Nat) : Nat := 4294967295 / esz

/-- `flatcc_verify_buffer_header(buf, bufsiz, fid)` with `fid` already converted to its hash (0 = none) -/
def verifyHeader (c : Ctx) (idHash : Nat) : V Unit :=
  guard' (decide (c.A % 4 = 0)) >>= fun _ =>
  guard' (decide (c.n ≤ 4294967295 - 8)) >>= fun _ =>
  guard' (decide (c.n ≥ 8)) >>= fun _ =>
  if idHash = 0 then pure () else
  rd32 c 4 >>= fun id => guard' (decide (id = idHash))

mutual
/-- `verify_table(buf, end, base, offset, ttl, tvf)` with `tvf` = the call list of table `t` -/
def verifyTable (S : Schema) (c : Ctx) : Nat → Nat → Nat → Int → Nat → V Unit
  | 0, _, _, _, _ => .error .fuel
  | fuel+1, base, offset, ttl, t =>
    guard' (decide (ttl - 1 > 0)) >>= fun _ =>
    guard' (checkHeader c.n base offset) >>= fun _ =>
    rd32 c (w32 (base + offset)) >>= fun so =>
    guard' (decide (sub32 (w32 (base + offset)) so < 2147483648) &&
            decide (sub32 (w32 (base + offset)) so % 2 = 0)) >>= fun _ =>
    guard' (if so < 2147483648 then decide (sub32 (w32 (base + offset)) so ≤ w32 (base + offset))
            else decide (sub32 (w32 (base + offset)) so > w32 (base + offset))) >>= fun _ =>
    guard' (decide (sub32 (w32 (base + offset)) so + 2 ≤ c.n)) >>= fun _ =>
    rd16 c (sub32 (w32 (base + offset)) so) >>= fun vsize =>
    guard' (decide (sub32 (w32 (base + offset)) so + vsize ≤ c.n) && decide (vsize % 2 = 0)) >>= fun _ =>
    guard' (decide (vsize ≥ 4)) >>= fun _ =>
    rd16 c (sub32 (w32 (base + offset)) so + 2) >>= fun tsize =>
    guard' (decide (sub32 c.n (w32 (base + offset)) ≥ tsize)) >>= fun _ =>
    verifyFields S c fuel
      { table := w32 (base + offset), vtable := sub32 (w32 (base + offset)) so,
        vsize := vsize, tsize := tsize, ttl := ttl - 1 } (S.table t)

termination_by fuel _ _ _ _ => (fuel, 0, 0)

/-- the generated `<U>_union_verifier(ud)`: dispatch on the type code; unknown codes are accepted -/
def verifyMember (S : Schema) (c : Ctx) (fuel : Nat) (base offset : Nat) (ttl : Int) : Option Member → V Unit
  | none => .ok ()
  | some (.table t) => verifyTable S c fuel base offset ttl t
  | some (.struct size align) => verifyStruct c c.n base offset size align
  | some .string => verifyString c base offset

termination_by (fuel, 1, 0)

/-- the tail of `flatcc_verify_table_as_nested_root`: the nested bytes `[s, s+len)` are verified as a buffer of their own
(`buf` = their first byte, `bufsiz` = `len`), no identifier requested, with the caller's remaining budget -/
def verifyNestedTable (S : Schema) (c : Ctx) (fuel : Nat) (s len : Nat) (ttl : Int) (t : Nat) : V Unit :=
  verifyHeader (sub c s len) 0 >>= fun _ =>
  rd32 (sub c s len) 0 >>= fun ro =>
  verifyTable S (sub c s len) fuel 0 ro ttl t

termination_by (fuel, 1, 0)

/-- the loop of `verify_table_vector` -/
def verifyTables (S : Schema) (c : Ctx) (fuel : Nat) (ttl : Int) (t : Nat) : Nat → Nat → V Unit
  | 0, _ => .ok ()
  | cnt+1, base =>
    rd32 c base >>= fun o =>
    verifyTable S c fuel base o ttl t >>= fun _ =>
    verifyTables S c fuel ttl t cnt (w32 (base + 4))

termination_by cnt _ => (fuel, 2, cnt)

/-- the loop of `verify_union_vector`: `tbase` walks the type bytes, `base` the value offsets -/
def verifyUnions (S : Schema) (c : Ctx) (fuel : Nat) (ttl : Int) (u : Nat) : Nat → Nat → Nat → V Unit
  | 0, _, _ => .ok ()
  | cnt+1, tbase, base =>
    rd32 c base >>= fun elem =>
    rd8 c tbase >>= fun ty =>
    (if elem = 0 then guard' (ty == 0)
     else guard' (ty != 0) >>= fun _ => verifyMember S c fuel base elem ttl (lookupMember (S.union u) ty)) >>= fun _ =>
    verifyUnions S c fuel ttl u cnt (tbase + 1) (w32 (base + 4))

termination_by cnt _ _ => (fuel, 2, cnt)

/-- one call of a generated table verifier -/
def verifyKind (S : Schema) (c : Ctx) (fuel : Nat) (td : TD) (f : Field) : V Unit :=
  match f.kind with
  | .scalar size align => verifyField c td f.id false size align
  | .string =>
    getOffsetField c td f.id f.required >>= fun r =>
    match r with
    | none => pure ()
    | some b => rd32 c b >>= fun o => verifyString c b o
  | .vector esz align maxc =>
    getOffsetField c td f.id f.required >>= fun r =>
    match r with
    | none => pure ()
    | some b => rd32 c b >>= fun o => verifyVector c b o esz align maxc >>= fun _ => pure ()
  | .stringVector =>
    getOffsetField c td f.id f.required >>= fun r =>
    match r with
    | none => pure ()
    | some b => rd32 c b >>= fun o => verifyStringVector c b o
  | .table t =>
    getOffsetField c td f.id f.required >>= fun r =>
    match r with
    | none => pure ()
    | some b => rd32 c b >>= fun o => verifyTable S c fuel b o td.ttl t
  | .tableVector t =>
    getOffsetField c td f.id f.required >>= fun r =>
    match r with
    | none => pure ()
    | some b =>
      rd32 c b >>= fun o =>
      guard' (decide (td.ttl > 0)) >>= fun _ =>
      verifyVector c b o 4 4 1073741823 >>= fun n =>
      verifyTables S c fuel (td.ttl - 1) t n (w32 (w32 (b + o) + 4))
  | .union u =>
    -- flatcc_verify_union_field(td, id, required, uvf)
    readVtEntry c td (f.id - 1) >>= fun vteType =>
    if vteType = 0 then
      readVtEntry c td f.id >>= fun vteTable =>
      guard' (vteTable == 0) >>= fun _ => guard' (!f.required)
    else
      verifyField c td (f.id - 1) false 1 1 >>= fun _ =>
      readVtEntry c td f.id >>= fun vteTable =>
      rd8 c (td.table + vteType) >>= fun ty =>
      guard' (ty != 0 || vteTable == 0) >>= fun _ =>
      if ty = 0 then pure () else
      getOffsetField c td f.id f.required >>= fun r =>
      match r with
      | none => pure ()
      | some b => rd32 c b >>= fun o => verifyMember S c fuel b o td.ttl (lookupMember (S.union u) ty)
  | .unionVector u =>
    -- flatcc_verify_union_vector_field(td, id, required, uvf)
    readVtEntry c td (f.id - 1) >>= fun vteType =>
    (if vteType = 0 then
       readVtEntry c td f.id >>= fun vteTable => guard' (vteTable == 0) >>= fun _ => guard' (!f.required)
     else pure ()) >>= fun _ =>
    getOffsetField c td (f.id - 1) f.required >>= fun rt =>
    match rt with
    | none => pure ()
    | some tb =>
      rd32 c tb >>= fun to =>
      verifyVector c tb to 1 1 4294967295 >>= fun count =>
      -- the value vector must be present when the type vector is non-empty (readers index it by the type count)
      getOffsetField c td f.id (f.required || decide (count > 0)) >>= fun r =>
      match r with
      | none => pure ()
      | some b =>
        rd32 c b >>= fun o =>
        guard' (decide (td.ttl > 0)) >>= fun _ =>
        verifyVector c b o 4 4 1073741823 >>= fun n =>
        guard' (decide (n = count)) >>= fun _ =>
        verifyUnions S c fuel (td.ttl - 1) u n (w32 (tb + to) + 4) (w32 (w32 (b + o) + 4))
  | .nestedTable t align =>
    -- flatcc_verify_table_as_nested_root(td, id, required, 0, align, tvf): the field as a ubyte vector, then its content as a buffer
    getOffsetField c td f.id f.required >>= fun r =>
    match r with
    | none => pure ()
    | some b =>
      rd32 c b >>= fun o =>
      verifyVector c b o 1 align 4294967295 >>= fun len =>
      verifyNestedTable S c fuel (w32 (w32 (b + o) + 4)) len td.ttl t
  | .nestedStruct size align =>
    -- flatcc_verify_struct_as_nested_root(td, id, required, 0, size, align)
    getOffsetField c td f.id f.required >>= fun r =>
    match r with
    | none => pure ()
    | some b =>
      rd32 c b >>= fun o =>
      verifyVector c b o 1 align 4294967295 >>= fun len =>
      verifyHeader (sub c (w32 (w32 (b + o) + 4)) len) 0 >>= fun _ =>
      rd32 (sub c (w32 (w32 (b + o) + 4)) len) 0 >>= fun ro =>
      verifyStruct (sub c (w32 (w32 (b + o) + 4)) len) len 0 ro size align

termination_by (fuel, 3, 0)

def verifyFields (S : Schema) (c : Ctx) : Nat → TD → List Field → V Unit
  | _, _, [] => .ok ()
  | fuel, td, f :: fs => verifyKind S c fuel td f >>= fun _ => verifyFields S c fuel td fs
termination_by fuel _ fs => (fuel, 4, fs.length)
end

/-- `flatbuffers_type_hash_from_string(fid)`: a NUL-terminated identifier string, at most 4 bytes are used -/
def hashFromString (b : List Nat) : Nat :=
  match b with
  | b0 :: b1 :: b2 :: b3 :: _ =>
    if b0 = 0 then 0 else if b1 = 0 then b0 else if b2 = 0 then b0 + 256 * b1
    else b0 + 256 * b1 + 65536 * b2 + 16777216 * b3
  | _ => 0

/-- `flatcc_verify_buffer_header_with_size`: returns the buffer size to verify with (size field + 4) -/
def verifyHeaderWithSize (c : Ctx) (idHash : Nat) : V Nat :=
  guard' (decide (c.A % 4 = 0)) >>= fun _ =>
  guard' (decide (c.n ≤ 4294967295 - 8)) >>= fun _ =>
  guard' (decide (c.n ≥ 12)) >>= fun _ =>
  rd32 c 0 >>= fun sz =>
  guard' (decide (sz ≤ c.n - 4)) >>= fun _ =>
  (if idHash = 0 then pure () else rd32 c 8 >>= fun id => guard' (decide (id = idHash))) >>= fun _ =>
  pure (sz + 4)

def maxLevels : Int := 100

/-- `flatcc_verify_table_as_root` / `_as_typed_root` -/
def verifyTableAsRoot (S : Schema) (c : Ctx) (idHash : Nat) (t : Nat) : V Unit :=
  verifyHeader c idHash >>= fun _ =>
  rd32 c 0 >>= fun o =>
  verifyTable S c 128 0 o maxLevels t

/-- `flatcc_verify_struct_as_root` -/
def verifyStructAsRoot (c : Ctx) (idHash : Nat) (size align : Nat) : V Unit :=
  verifyHeader c idHash >>= fun _ =>
  rd32 c 0 >>= fun o =>
  verifyStruct c c.n 0 o size align

/-- `flatcc_verify_table_as_root_with_size` / `_as_typed_root_with_size` -/
def verifyTableAsRootWithSize (S : Schema) (c : Ctx) (idHash : Nat) (t : Nat) : V Unit :=
  verifyHeaderWithSize c idHash >>= fun n' =>
  rd32 c 4 >>= fun o =>
  verifyTable S { c with n := n' } 128 4 o maxLevels t

/-- `flatcc_verify_struct_as_root_with_size` -/
def verifyStructAsRootWithSize (c : Ctx) (idHash : Nat) (size align : Nat) : V Unit :=
  verifyHeaderWithSize c idHash >>= fun n' =>
  rd32 c 4 >>= fun o =>
  verifyStruct c n' 4 o size align

end Flatcc.Verifier
