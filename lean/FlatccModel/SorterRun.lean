import FlatccModel.Sortable
/-!
# What a chain of generated `<T>_sort` functions does to a buffer

A table sorter (`gen_table_sorter`) goes through the table's non-deprecated members: a member whose type is marked sortable is
descended into (`__flatbuffers_sort_table_field`, `..._union_field`, `..._table_vector_field_elements`,
`..._union_vector_field_elements`), a member marked `sorted` is then sorted itself (`__flatbuffers_sort_vector_field`). A union
sorter switches on the stored type and descends into the member if its type is marked. Members whose type is not marked are
skipped. The theorem: with the marks computed by `mark_sortable`, skipping changes nothing — the result is the same as that of
the sorter that descends everywhere, i.e. every vector marked `sorted` anywhere below the root gets sorted.
-/
namespace Flatcc.Sortable

structure FieldD where
  dep : Bool                 -- deprecated: no accessor, never touched
  sorted : Bool              -- the member (a vector) carries `sorted`
  target : Option Nat        -- table / union type (index in declaration order) the member refers to, single or vector
  deriving Repr

/-- per table: its members; per union: one entry per union member -/
abbrev Schema := List (List FieldD)

def toTy (fs : List FieldD) : Ty :=
  { direct := fs.any (fun d => !d.dep && d.sorted)
    refs := fs.filterMap (fun d => if d.dep then none else d.target) }

inductive Val where
  | leaf (xs : List Int)                  -- absent member, scalar, string, vector of scalars / strings / structs
  | node (ty : Nat) (fields : List Val)   -- a table; a union value is a node of the union type with one slot per member
  | many (ks : List Val)                  -- vector of tables, union vector

mutual
/-- run the sorter on a value; `st` is the in-place sort of one vector, `mk` says which types have a sorter -/
def sortVal (S : Schema) (st : Val → Val) (mk : Nat → Bool) : Val → Val
  | .leaf xs => .leaf xs
  | .node ty fs => .node ty (sortFields S st mk (S.getD ty []) fs)
  | .many ks => .many (sortList S st mk ks)
def sortList (S : Schema) (st : Val → Val) (mk : Nat → Bool) : List Val → List Val
  | [] => []
  | k :: ks => sortVal S st mk k :: sortList S st mk ks
def sortFields (S : Schema) (st : Val → Val) (mk : Nat → Bool) : List FieldD → List Val → List Val
  | _, [] => []
  | [], fs => fs
  | d :: ds, f :: fs =>
    (if d.dep then f else
      let f1 := match d.target with
        | some t => if mk t then sortVal S st mk f else f
        | none => f
      if d.sorted then st f1 else f1) :: sortFields S st mk ds fs
end

mutual
/-- the value has the shape its declaration says (what the verifier guarantees for a buffer) -/
def confVal (S : Schema) : Nat → Val → Bool
  | _, .leaf _ => true
  | t, .node ty fs => ty == t && confFields S (S.getD ty []) fs
  | t, .many ks => confList S t ks
def confList (S : Schema) : Nat → List Val → Bool
  | _, [] => true
  | t, k :: ks => confVal S t k && confList S t ks
def confFields (S : Schema) : List FieldD → List Val → Bool
  | _, [] => true
  | [], _ => true
  | d :: ds, f :: fs =>
    (match d.target with
      | some t => confVal S t f
      | none => match f with
        | .leaf _ => true
        | _ => false) && confFields S ds fs
end

/-- the two facts about the marks that make skipping safe -/
structure MarksOK (S : Schema) (mk : Nat → Bool) : Prop where
  nodirect : ∀ t, mk t = false → ∀ d ∈ S.getD t [], d.dep = false → d.sorted = false
  closed : ∀ t, mk t = false → ∀ d ∈ S.getD t [], d.dep = false → ∀ g, d.target = some g → mk g = false

def NoSort (ds : List FieldD) : Prop := ∀ d ∈ ds, d.dep = false → d.sorted = false
def NoMark (mk : Nat → Bool) (ds : List FieldD) : Prop := ∀ d ∈ ds, d.dep = false → ∀ g, d.target = some g → mk g = false

mutual
theorem full_id_val (S : Schema) (st : Val → Val) (mk : Nat → Bool) (h : MarksOK S mk) :
    ∀ (v : Val) (t : Nat), mk t = false → confVal S t v = true → sortVal S st (fun _ => true) v = v
  | .leaf xs, _, _, _ => by simp [sortVal]
  | .node ty fs, t, hm, hc => by
    simp only [confVal, Bool.and_eq_true, beq_iff_eq] at hc
    obtain ⟨rfl, hc⟩ := hc
    simp only [sortVal]
    rw [full_id_fields S st mk h (S.getD ty []) fs (h.nodirect ty hm) (h.closed ty hm) hc]
  | .many ks, t, hm, hc => by
    simp only [confVal] at hc
    simp only [sortVal]
    rw [full_id_list S st mk h ks t hm hc]
theorem full_id_list (S : Schema) (st : Val → Val) (mk : Nat → Bool) (h : MarksOK S mk) :
    ∀ (ks : List Val) (t : Nat), mk t = false → confList S t ks = true → sortList S st (fun _ => true) ks = ks
  | [], _, _, _ => by simp [sortList]
  | k :: ks, t, hm, hc => by
    simp only [confList, Bool.and_eq_true] at hc
    simp only [sortList]
    rw [full_id_val S st mk h k t hm hc.1, full_id_list S st mk h ks t hm hc.2]
theorem full_id_fields (S : Schema) (st : Val → Val) (mk : Nat → Bool) (h : MarksOK S mk) :
    ∀ (ds : List FieldD) (fs : List Val), NoSort ds → NoMark mk ds → confFields S ds fs = true →
      sortFields S st (fun _ => true) ds fs = fs
  | _, [], _, _, _ => by simp [sortFields]
  | [], _ :: _, _, _, _ => by simp [sortFields]
  | d :: ds, f :: fs, hs, hk, hc => by
    simp only [confFields, Bool.and_eq_true] at hc
    have hs' : NoSort ds := fun d' hd' => hs d' (List.mem_cons_of_mem _ hd')
    have hk' : NoMark mk ds := fun d' hd' => hk d' (List.mem_cons_of_mem _ hd')
    simp only [sortFields]
    rw [full_id_fields S st mk h ds fs hs' hk' hc.2]
    congr 1
    cases hdep : d.dep with
    | true => simp
    | false =>
      have hso := hs d (List.mem_cons_self ..) hdep
      simp only [Bool.false_eq_true, if_false, hso]
      cases htg : d.target with
      | none => rfl
      | some g =>
        have hg := hk d (List.mem_cons_self ..) hdep g htg
        have hcf := hc.1
        rw [htg] at hcf
        simp only [if_true]
        exact full_id_val S st mk h f g hg hcf
end

mutual
theorem skip_eq_val (S : Schema) (st : Val → Val) (mk : Nat → Bool) (h : MarksOK S mk) :
    ∀ (v : Val) (t : Nat), confVal S t v = true → sortVal S st mk v = sortVal S st (fun _ => true) v
  | .leaf xs, _, _ => by simp [sortVal]
  | .node ty fs, t, hc => by
    simp only [confVal, Bool.and_eq_true, beq_iff_eq] at hc
    simp only [sortVal]
    rw [skip_eq_fields S st mk h (S.getD ty []) fs hc.2]
  | .many ks, t, hc => by
    simp only [confVal] at hc
    simp only [sortVal]
    rw [skip_eq_list S st mk h ks t hc]
theorem skip_eq_list (S : Schema) (st : Val → Val) (mk : Nat → Bool) (h : MarksOK S mk) :
    ∀ (ks : List Val) (t : Nat), confList S t ks = true → sortList S st mk ks = sortList S st (fun _ => true) ks
  | [], _, _ => by simp [sortList]
  | k :: ks, t, hc => by
    simp only [confList, Bool.and_eq_true] at hc
    simp only [sortList]
    rw [skip_eq_val S st mk h k t hc.1, skip_eq_list S st mk h ks t hc.2]
theorem skip_eq_fields (S : Schema) (st : Val → Val) (mk : Nat → Bool) (h : MarksOK S mk) :
    ∀ (ds : List FieldD) (fs : List Val), confFields S ds fs = true →
      sortFields S st mk ds fs = sortFields S st (fun _ => true) ds fs
  | _, [], _ => by simp [sortFields]
  | [], _ :: _, _ => by simp [sortFields]
  | d :: ds, f :: fs, hc => by
    simp only [confFields, Bool.and_eq_true] at hc
    simp only [sortFields]
    rw [skip_eq_fields S st mk h ds fs hc.2]
    congr 1
    cases hdep : d.dep with
    | true => simp
    | false =>
      simp only [Bool.false_eq_true, if_false, if_true]
      cases htg : d.target with
      | none => rfl
      | some g =>
        have hcf := hc.1
        rw [htg] at hcf
        cases hg : mk g with
        | true => rw [skip_eq_val S st mk h f g hcf]; simp [hg]
        | false => rw [full_id_val S st mk h f g hg hcf]; simp [hg]
end

/-- the marks computed by `mark_sortable` have the two facts -/
theorem marksOK_of_markSortable (S : Schema) (r : Marks) (h : markSortable (S.map toTy) = some r) :
    MarksOK S (get r) := by
  have hr := (markSortable_iff_reach _ r h).2
  have hty : ∀ t d, d ∈ S.getD t [] → (S.map toTy)[t]? = some (toTy (S.getD t [])) := by
    intro t d hd
    rcases Nat.lt_or_ge t S.length with hlt | hge
    · simp [List.getD, List.getElem?_eq_getElem hlt]
    · simp [List.getD, List.getElem?_eq_none hge] at hd
  constructor
  · intro t hm d hd hdep
    cases hs : d.sorted with
    | false => rfl
    | true =>
      have : Reach (S.map toTy) t := Reach.direct (hty t d hd) (by
        simp only [toTy, List.any_eq_true]; exact ⟨d, hd, by simp [hdep, hs]⟩)
      have := (hr t).mpr this
      rw [hm] at this; cases this
  · intro t hm d hd hdep g hg
    cases hmg : get r g with
    | false => rfl
    | true =>
      have hrg := (hr g).mp hmg
      have : Reach (S.map toTy) t := Reach.step (hty t d hd) (by
        simp only [toTy, List.mem_filterMap]; exact ⟨d, hd, by simp [hdep, hg]⟩) hrg
      have := (hr t).mpr this
      rw [hm] at this; cases this

mutual
theorem sort_id_val (S : Schema) (mk : Nat → Bool) : ∀ (v : Val), sortVal S (fun x => x) mk v = v
  | .leaf xs => by simp [sortVal]
  | .node ty fs => by simp only [sortVal]; rw [sort_id_fields S mk (S.getD ty []) fs]
  | .many ks => by simp only [sortVal]; rw [sort_id_list S mk ks]
theorem sort_id_list (S : Schema) (mk : Nat → Bool) : ∀ (ks : List Val), sortList S (fun x => x) mk ks = ks
  | [] => by simp [sortList]
  | k :: ks => by simp only [sortList]; rw [sort_id_val S mk k, sort_id_list S mk ks]
theorem sort_id_fields (S : Schema) (mk : Nat → Bool) : ∀ (ds : List FieldD) (fs : List Val),
    sortFields S (fun x => x) mk ds fs = fs
  | _, [] => by simp [sortFields]
  | [], _ :: _ => by simp [sortFields]
  | d :: ds, f :: fs => by
    simp only [sortFields]
    rw [sort_id_fields S mk ds fs, sort_id_val S mk f]
    congr 1
    cases d.target <;> simp
end

end Flatcc.Sortable
