import FlatccModel.Verifier
import FlatccModel.Generated.Consts
/-!
# Type hashes and identifiers (`flatcc_identifier.h`, `semantics.c: set_type_hash`, generated `has_identifier`)
-/
namespace Flatcc.Ident
open Flatcc.Verifier

def fnvOffset : Nat := 2166136261
def fnvPrime : Nat := 16777619

/-- `fb_hash_fnv1a_32_append(hash, data, len)` -/
def fnvAppend (h : Nat) (data : List Nat) : Nat :=
  data.foldl (fun h b => ((h ^^^ (b % 256)) * fnvPrime) % 4294967296) h

/-- `flatbuffers_type_hash_from_name(name)` (runtime): zero is mapped to the hash of "" -/
def typeHashFromName (name : List Nat) : Nat :=
  let h := fnvAppend fnvOffset name
  if h = 0 then fnvOffset else h

/-- `set_type_hash(ct)` (schema compiler): scope components each followed by '.', then the name -/
def compileTypeHash (scope : List (List Nat)) (name : List Nat) : Nat :=
  let h := scope.foldl (fun h comp => fnvAppend (fnvAppend h comp) [46]) fnvOffset
  let h := fnvAppend h name
  if h = 0 then fnvOffset else h

/-- the dot-qualified name -/
def dotted (scope : List (List Nat)) (name : List Nat) : List Nat :=
  scope.foldr (fun comp acc => comp ++ [46] ++ acc) name

/-- `flatbuffers_identifier_from_type_hash` -/
def identifierFromHash (h : Nat) : List Nat := [h % 256, h / 256 % 256, h / 65536 % 256, h / 16777216 % 256]

/-- `flatbuffers_type_hash_from_identifier` -/
def hashFromIdentifier : List Nat → Nat
  | [b0, b1, b2, b3] => b0 + 256 * b1 + 65536 * b2 + 16777216 * b3
  | _ => 0

/-- generated `flatbuffers_has_identifier(buffer, fid)`: `fid = none` is the null pointer.
`stored` is the 32-bit word at offset 4 of the buffer. -/
def hasIdentifier (stored : Nat) (fid : Option (List Nat)) : Bool :=
  match fid with
  | none => true
  | some s => let id2 := hashFromString (s ++ [0, 0, 0, 0]); id2 == 0 || stored == id2

/-- generated `flatbuffers_has_type_hash(buffer, thash)` -/
def hasTypeHash (stored thash : Nat) : Bool := thash == 0 || stored == thash

/-- what `flatcc_builder_create_buffer` puts after the root offset: the 4 identifier bytes, or nothing
when the identifier is null or all zero -/
def storedIdentifier (fid : Option (List Nat)) : Option (List Nat) :=
  match fid with
  | none => none
  | some s => if hashFromIdentifier s = 0 then none else some s

end Flatcc.Ident
