import FlatccModel.Verifier
/-!
# Generated reader (`codegen_c_reader.c` → `flatbuffers_common_reader.h`): the reads it makes

For every accessor of the generated reader API the model lists the memory accesses
`(offset from buffer start, length, required alignment)` it performs — unguarded, exactly as the C
macros do (`__flatbuffers_read_vt`, `__flatbuffers_offset_field`, `*_vec_len`, `*_vec_at`,
`flatbuffers_string_len` + the bytes of the string including its terminator, union type/value,
union vector elements).  Pointer arithmetic is 64-bit (no wrap): positions are plain `Nat`.
`tableAcc` walks everything reachable from a table through every accessor.
-/
namespace Flatcc.Verifier

structure Access where
  addr : Nat
  len : Nat
  align : Nat
  deriving Repr, DecidableEq

/-- inside the buffer and aligned for its type at its absolute address -/
def Safe (c : Ctx) (a : Access) : Prop := a.addr + a.len ≤ c.n ∧ (c.A + a.addr) % a.align = 0

/-- unguarded little-endian reads -/
def r8 (c : Ctx) (i : Nat) : Nat := c.buf i % 256
def r16 (c : Ctx) (i : Nat) : Nat := c.buf i % 256 + 256 * (c.buf (i+1) % 256)
def r32 (c : Ctx) (i : Nat) : Nat :=
  c.buf i % 256 + 256 * (c.buf (i+1) % 256) + 65536 * (c.buf (i+2) % 256) + 16777216 * (c.buf (i+3) % 256)

/-- vtable position as `__flatbuffers_read_vt` computes it: table pointer minus the *signed* soffset -/
def readVtBase (c : Ctx) (table : Nat) : Nat :=
  let so := r32 c table
  let vt : Int := (table : Int) - (if so < 2147483648 then (so : Int) else (so : Int) - 4294967296)
  vt.toNat

/-- `__flatbuffers_read_vt(ID, offset, t)`: value and the reads made -/
def readVt (c : Ctx) (table id : Nat) : Nat × List Access :=
  let vtn := readVtBase c table
  let vsize := r16 c vtn
  if vsize ≥ 2 * (id + 3) then
    (r16 c (vtn + 2 * (id + 2)), [⟨table, 4, 4⟩, ⟨vtn, 2, 2⟩, ⟨vtn + 2 * (id + 2), 2, 2⟩])
  else (0, [⟨table, 4, 4⟩, ⟨vtn, 2, 2⟩])

/-- a string whose header (length field) is at `s`: length read, then all bytes incl. the terminator -/
def stringAcc (c : Ctx) (s : Nat) : List Access := [⟨s, 4, 4⟩, ⟨s + 4, r32 c s + 1, 1⟩]

/-- a vector whose header is at `s`: length read and the element area -/
def vectorAcc (c : Ctx) (s esz align : Nat) : List Access :=
  [⟨s, 4, 4⟩, ⟨s + 4, r32 c s * esz, if r32 c s = 0 then 1 else align⟩]

/-- where `uv.value[i]` lands when the value vector is absent (a null pointer): outside every buffer -/
def nullBase : Nat := 18446744073709551616

/-- an access made through a pointer into a nested buffer that starts at byte `s` of the enclosing buffer -/
def shiftAcc (s : Nat) (a : Access) : Access := ⟨s + a.addr, a.len, a.align⟩

mutual
def tableAcc (S : Schema) (c : Ctx) : Nat → Nat → Nat → List Access
  | 0, _, _ => []
  | fuel+1, table, t => fieldsAcc S c fuel table (S.table t)

def memberAcc (S : Schema) (c : Ctx) (fuel : Nat) (p : Nat) : Option Member → List Access
  | none => []
  | some (.table t) => tableAcc S c fuel p t
  | some (.struct size align) => [⟨p, size, align⟩]
  | some .string => stringAcc c p

/-- elements `i, i+1, …` (`cnt` of them) of an offset vector whose element 0 is at `e0`: strings -/
def stringElemsAcc (c : Ctx) : Nat → Nat → List Access
  | 0, _ => []
  | cnt+1, e => (⟨e, 4, 4⟩ :: stringAcc c (e + r32 c e)) ++ stringElemsAcc c cnt (e + 4)

def tableElemsAcc (S : Schema) (c : Ctx) (fuel t : Nat) : Nat → Nat → List Access
  | 0, _ => []
  | cnt+1, e => (⟨e, 4, 4⟩ :: tableAcc S c fuel (e + r32 c e) t) ++ tableElemsAcc S c fuel t cnt (e + 4)

/-- union vector elements: type byte at `tp`, value slot at `e`; type 0 (NONE) has no value access -/
def unionElemsAcc (S : Schema) (c : Ctx) (fuel u : Nat) : Nat → Nat → Nat → List Access
  | 0, _, _ => []
  | cnt+1, tp, e =>
    (if r8 c tp = 0 then []
     else ⟨e, 4, 4⟩ :: memberAcc S c fuel (e + r32 c e) (lookupMember (S.union u) (r8 c tp)))
    ++ unionElemsAcc S c fuel u cnt (tp + 1) (e + 4)

def fieldAcc (S : Schema) (c : Ctx) (fuel table : Nat) (f : Field) : List Access :=
  match f.kind with
  | .scalar size align =>
    if (readVt c table f.id).1 = 0 then (readVt c table f.id).2
    else (readVt c table f.id).2 ++ [⟨table + (readVt c table f.id).1, size, align⟩]
  | .string =>
    if (readVt c table f.id).1 = 0 then (readVt c table f.id).2
    else (readVt c table f.id).2 ++ ⟨table + (readVt c table f.id).1, 4, 4⟩ ::
      stringAcc c (table + (readVt c table f.id).1 + r32 c (table + (readVt c table f.id).1))
  | .vector esz align _ =>
    if (readVt c table f.id).1 = 0 then (readVt c table f.id).2
    else (readVt c table f.id).2 ++ ⟨table + (readVt c table f.id).1, 4, 4⟩ ::
      vectorAcc c (table + (readVt c table f.id).1 + r32 c (table + (readVt c table f.id).1)) esz align
  | .stringVector =>
    if (readVt c table f.id).1 = 0 then (readVt c table f.id).2
    else
      (readVt c table f.id).2 ++ ⟨table + (readVt c table f.id).1, 4, 4⟩ ::
      ⟨table + (readVt c table f.id).1 + r32 c (table + (readVt c table f.id).1), 4, 4⟩ ::
      stringElemsAcc c (r32 c (table + (readVt c table f.id).1 + r32 c (table + (readVt c table f.id).1)))
        (table + (readVt c table f.id).1 + r32 c (table + (readVt c table f.id).1) + 4)
  | .table t =>
    if (readVt c table f.id).1 = 0 then (readVt c table f.id).2
    else (readVt c table f.id).2 ++ ⟨table + (readVt c table f.id).1, 4, 4⟩ ::
      tableAcc S c fuel (table + (readVt c table f.id).1 + r32 c (table + (readVt c table f.id).1)) t
  | .tableVector t =>
    if (readVt c table f.id).1 = 0 then (readVt c table f.id).2
    else
      (readVt c table f.id).2 ++ ⟨table + (readVt c table f.id).1, 4, 4⟩ ::
      ⟨table + (readVt c table f.id).1 + r32 c (table + (readVt c table f.id).1), 4, 4⟩ ::
      tableElemsAcc S c fuel t (r32 c (table + (readVt c table f.id).1 + r32 c (table + (readVt c table f.id).1)))
        (table + (readVt c table f.id).1 + r32 c (table + (readVt c table f.id).1) + 4)
  | .union u =>
    -- `N_f_type(t)`, and if the type is not NONE `N_f(t)` and the member
    if (readVt c table (f.id - 1)).1 = 0 then (readVt c table (f.id - 1)).2
    else
      (readVt c table (f.id - 1)).2 ++ ⟨table + (readVt c table (f.id - 1)).1, 1, 1⟩ ::
      (if r8 c (table + (readVt c table (f.id - 1)).1) = 0 then []
       else if (readVt c table f.id).1 = 0 then (readVt c table f.id).2
       else (readVt c table f.id).2 ++ ⟨table + (readVt c table f.id).1, 4, 4⟩ ::
         memberAcc S c fuel (table + (readVt c table f.id).1 + r32 c (table + (readVt c table f.id).1))
           (lookupMember (S.union u) (r8 c (table + (readVt c table (f.id - 1)).1))))
  | .unionVector u =>
    -- `N_f_union(t)`: both vector fields are fetched; elements through `U_union_vec_at`
    (if (readVt c table (f.id - 1)).1 = 0 then (readVt c table (f.id - 1)).2
     else (readVt c table (f.id - 1)).2 ++ ⟨table + (readVt c table (f.id - 1)).1, 4, 4⟩ ::
       vectorAcc c (table + (readVt c table (f.id - 1)).1 + r32 c (table + (readVt c table (f.id - 1)).1)) 1 1) ++
    (if (readVt c table f.id).1 = 0 then (readVt c table f.id).2
     else (readVt c table f.id).2 ++ ⟨table + (readVt c table f.id).1, 4, 4⟩ ::
       [⟨table + (readVt c table f.id).1 + r32 c (table + (readVt c table f.id).1), 4, 4⟩]) ++
    (if (readVt c table (f.id - 1)).1 = 0 then []
     else unionElemsAcc S c fuel u
       (r32 c (table + (readVt c table (f.id - 1)).1 + r32 c (table + (readVt c table (f.id - 1)).1)))
       (table + (readVt c table (f.id - 1)).1 + r32 c (table + (readVt c table (f.id - 1)).1) + 4)
       (if (readVt c table f.id).1 = 0 then nullBase
        else table + (readVt c table f.id).1 + r32 c (table + (readVt c table f.id).1) + 4))
  | .nestedTable t _ =>
    -- `N_f(t)` (the ubyte vector) and `N_f_as_root(t)` = `T_as_root(<pointer to the first byte of the vector>)`: from there on every
    -- read is relative to that pointer, i.e. a read of the nested buffer's own bytes
    if (readVt c table f.id).1 = 0 then (readVt c table f.id).2
    else (readVt c table f.id).2 ++ ⟨table + (readVt c table f.id).1, 4, 4⟩ ::
      (vectorAcc c (table + (readVt c table f.id).1 + r32 c (table + (readVt c table f.id).1)) 1 1 ++
       (⟨0, 4, 4⟩ :: tableAcc S
          (sub c (table + (readVt c table f.id).1 + r32 c (table + (readVt c table f.id).1) + 4)
                 (r32 c (table + (readVt c table f.id).1 + r32 c (table + (readVt c table f.id).1))))
          fuel
          (r32 (sub c (table + (readVt c table f.id).1 + r32 c (table + (readVt c table f.id).1) + 4)
                      (r32 c (table + (readVt c table f.id).1 + r32 c (table + (readVt c table f.id).1)))) 0) t).map
         (shiftAcc (table + (readVt c table f.id).1 + r32 c (table + (readVt c table f.id).1) + 4)))
  | .nestedStruct size align =>
    -- `N_f_as_root(t)` = `S_as_root(<pointer to the first byte of the vector>)`: root offset, then the struct
    if (readVt c table f.id).1 = 0 then (readVt c table f.id).2
    else (readVt c table f.id).2 ++ ⟨table + (readVt c table f.id).1, 4, 4⟩ ::
      (vectorAcc c (table + (readVt c table f.id).1 + r32 c (table + (readVt c table f.id).1)) 1 1 ++
       [⟨table + (readVt c table f.id).1 + r32 c (table + (readVt c table f.id).1) + 4, 4, 4⟩,
        ⟨table + (readVt c table f.id).1 + r32 c (table + (readVt c table f.id).1) + 4 +
           r32 c (table + (readVt c table f.id).1 + r32 c (table + (readVt c table f.id).1) + 4), size, align⟩])

def fieldsAcc (S : Schema) (c : Ctx) : Nat → Nat → List Field → List Access
  | _, _, [] => []
  | fuel, table, f :: fs => fieldAcc S c fuel table f ++ fieldsAcc S c fuel table fs
end

/-- `T_as_root(buf)`: read the root offset, then everything reachable -/
def rootAcc (S : Schema) (c : Ctx) (fuel t : Nat) : List Access :=
  ⟨0, 4, 4⟩ :: tableAcc S c fuel (r32 c 0) t

end Flatcc.Verifier
