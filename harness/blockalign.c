/* C02, "any block alignment": one small table in a buffer with block alignment argv[1], through start_buffer/end_buffer and through
 * create_buffer. Built with -DNDEBUG under ASan: a block alignment the builder cannot serve must be refused (null reference), never
 * served from memory behind the builder's block of padding zeroes. Output: "<ba> <mode> refused" | "<ba> <mode> ok size=<n> verify=<rc> align=<a>". */
#include <stdio.h>
#include <stdlib.h>
#include <string.h>
#include "flatcc/flatcc_builder.h"
#include "flatcc/flatcc_verifier.h"

static int table_verifier(flatcc_table_verifier_descriptor_t *td)
{
    return flatcc_verify_field(td, 0, 4, 4);
}

int main(int argc, char **argv)
{
    flatcc_builder_t b, *B = &b; unsigned ba = argc > 1 ? (unsigned)atoi(argv[1]) : 8; int mode;
    flatcc_builder_init(B);
    for (mode = 0; mode < 2; ++mode) {
        flatcc_builder_ref_t t, r; void *buf; size_t n = 0; uint32_t v = 0x11223344; void *p;
        flatcc_builder_reset(B);
        if (mode == 0) {
            if (flatcc_builder_start_buffer(B, 0, (uint16_t)ba, 0)) { printf("%u start refused\n", ba); continue; }
            flatcc_builder_start_table(B, 1); p = flatcc_builder_table_add(B, 0, 4, 4); memcpy(p, &v, 4); t = flatcc_builder_end_table(B);
            r = flatcc_builder_end_buffer(B, t);
        } else {
            flatcc_builder_start_table(B, 1); p = flatcc_builder_table_add(B, 0, 4, 4); memcpy(p, &v, 4); t = flatcc_builder_end_table(B);
            r = flatcc_builder_create_buffer(B, 0, (uint16_t)ba, t, 4, 0);
        }
        if (!r) { printf("%u %s refused\n", ba, mode ? "create" : "start"); continue; }
        buf = flatcc_builder_finalize_aligned_buffer(B, &n);
        if (!buf) { printf("%u %s finalize-failed\n", ba, mode ? "create" : "start"); continue; }
        printf("%u %s ok size=%u verify=%d align=%u\n", ba, mode ? "create" : "start", (unsigned)n,
                flatcc_verify_table_as_root(buf, n, 0, table_verifier), (unsigned)flatcc_builder_get_buffer_alignment(B));
        flatcc_builder_aligned_free(buf);
    }
    flatcc_builder_clear(B);
    return 0;
}
