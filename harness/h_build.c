/* C02/C03/C13/C14/C15 correspondence harness: drives the runtime builder API (src/runtime/builder.c) from a
 * self-describing value tree, in several call styles, on one persistent builder, with optional fault injection
 * through the custom allocator / emitter interfaces.
 *
 * tree tokens (space separated, prefix form):
 *   T n {id val}*n | i size align hex | s hex | v esz align hex | o n val*n | u align hex | r k | N
 *   B ident|- withsize blockalign val | U type val | W n {type val}*n | E withsize blockalign align hex
 * lines:
 *   fresh <custom>                         new builder (custom=1: wrapper emitter+allocator, 0: flatcc defaults)
 *   opt <cachelimit> <maxlevel>
 *   reset <reduce>
 *   build <flags> <ident|-> <blockalign> <style> <tree>      flags: 1 with_size, 2 no clustering, 4 direct create_buffer root,
 *                                                            8 root table's children created before start_buffer
 *   partial <cut> <flags> <ident|-> <blockalign> <style> <tree>   stop after <cut> API calls, leaving everything open
 *   faulta <k> <rep> ... / faulte <k> <rep> ...   like build; the k-th (and, rep=1, every later) alloc / emit call fails
 *   uenter <size>                           enter a user frame and leave it open
 *   faultm <k> <rep> ...                    macro-level: the k-th allocation of the whole runtime fails (runtime built with FLATCC_ALLOC=h_malloc..)
 *   mem                                     footprint
 */
#include "hcommon.h"
#include <setjmp.h>
#include "flatcc/flatcc_builder.h"
#include "flatcc/flatcc_emitter.h"

typedef struct node {
    char k; unsigned size, align, esz; uint8_t *bytes; size_t blen; int n;
    struct node **kid; int *kid_id; int *kid_type; int ref; char ident[4]; int has_ident, with_size, block_align;
} node_t;

static char **T; static int TN, TI;
static const char *tok(void) { return TI < TN ? T[TI++] : "N"; }

static node_t *parse(void)
{
    node_t *x = calloc(1, sizeof(*x)); const char *t = tok(); int i;
    x->k = t[0];
    switch (x->k) {
    case 'T': case 'W':
        x->n = atoi(tok()); x->kid = calloc((size_t)x->n + 1, sizeof(*x->kid));
        x->kid_id = calloc((size_t)x->n + 1, sizeof(int)); x->kid_type = x->kid_id;
        for (i = 0; i < x->n; ++i) { x->kid_id[i] = atoi(tok()); x->kid[i] = parse(); }
        break;
    case 'i': x->size = (unsigned)atoi(tok()); x->align = (unsigned)atoi(tok()); goto bytes;
    case 'v': x->esz = (unsigned)atoi(tok()); x->align = (unsigned)atoi(tok()); goto bytes;
    case 'u': x->align = (unsigned)atoi(tok()); goto bytes;
    case 'E': x->with_size = atoi(tok()); x->block_align = atoi(tok()); x->align = (unsigned)atoi(tok()); goto bytes;
    case 's':
    bytes:
        t = tok(); x->blen = h_hexlen(t); x->bytes = malloc(x->blen + 1); h_unhex(t, x->bytes);
        break;
    case 'o':
        x->n = atoi(tok()); x->kid = calloc((size_t)x->n + 1, sizeof(*x->kid));
        for (i = 0; i < x->n; ++i) x->kid[i] = parse();
        break;
    case 'r': x->ref = atoi(tok()); break;
    case 'B':
        t = tok(); if (strcmp(t, "-")) { h_unhex(t, (uint8_t *)x->ident); x->has_ident = 1; }
        x->with_size = atoi(tok()); x->block_align = atoi(tok());
        x->n = 1; x->kid = calloc(1, sizeof(*x->kid)); x->kid[0] = parse();
        break;
    case 'U': x->size = (unsigned)atoi(tok()); x->n = 1; x->kid = calloc(1, sizeof(*x->kid)); x->kid[0] = parse(); break;
    default: x->k = 'N'; break;
    }
    return x;
}
static void nfree(node_t *x) { int i; if (!x) return; for (i = 0; i < x->n; ++i) nfree(x->kid[i]); free(x->kid); free(x->kid_id); free(x->bytes); free(x); }

/* ---- macro level allocation wrappers (runtime built with -DFLATCC_ALLOC=h_malloc ...) ---- */
static long m_calls, m_fault_at, m_live; static int m_rep; static long m_fired;
static int m_fail(void) { ++m_calls; if (m_fault_at && (m_calls == m_fault_at || (m_rep && m_calls > m_fault_at))) { ++m_fired; return 1; } return 0; }
void *h_malloc(size_t n) { void *p; if (m_fail()) return 0; p = malloc(n); if (p) ++m_live; return p; }
void *h_calloc(size_t nm, size_t n) { void *p; if (m_fail()) return 0; p = calloc(nm, n); if (p) ++m_live; return p; }
void *h_realloc(void *q, size_t n) { void *p; if (m_fail()) return 0; p = realloc(q, n); if (p && !q) ++m_live; return p; }
void h_free(void *p) { if (p) --m_live; free(p); }

/* ---- wrapper emitter / allocator ---- */
static flatcc_emitter_t E;
static long emit_calls, alloc_calls, fault_emit_at, fault_alloc_at; static int fault_rep; static long faults_fired;
static char *elog; static size_t elog_len, elog_cap;
static void elog_add(long off, size_t len) {
    char b[64]; int n = snprintf(b, sizeof b, "%s%ld:%zu", elog_len ? "," : "", off, len);
    if (elog_len + (size_t)n + 1 > elog_cap) { elog_cap = (elog_cap + (size_t)n + 64) * 2; elog = realloc(elog, elog_cap); }
    memcpy(elog + elog_len, b, (size_t)n + 1); elog_len += (size_t)n;
}
/* piece log (op `iov`): per emit call F|B <len> : piece lengths */
static char plog[4096]; static size_t plog_len; static int log_pieces;
static int w_emit(void *ctx, const flatcc_iovec_t *iov, int iov_count, flatbuffers_soffset_t offset, size_t len)
{
    ++emit_calls;
    if (fault_emit_at && (emit_calls == fault_emit_at || (fault_rep && emit_calls > fault_emit_at))) { ++faults_fired; return -1; }
    if (log_pieces && plog_len + 32 + 12 * (size_t)(iov_count > 0 ? iov_count : 0) < sizeof plog) {
        int i;
        plog_len += (size_t)snprintf(plog + plog_len, sizeof plog - plog_len, "%s%c%zu:", plog_len ? "," : "", offset < 0 ? 'F' : 'B', len);
        for (i = 0; i < iov_count; ++i) plog_len += (size_t)snprintf(plog + plog_len, sizeof plog - plog_len, "%s%zu", i ? "+" : "", iov[i].iov_len);
    }
    elog_add((long)offset, len);
    return flatcc_emitter(ctx, iov, iov_count, offset, len);
}
static long live_blocks;
static int w_alloc(void *ctx, flatcc_iovec_t *b, size_t request, int zero_fill, int alloc_type)
{
    int had = b->iov_base != 0, r;
    ++alloc_calls;
    if (request != 0 && fault_alloc_at && (alloc_calls == fault_alloc_at || (fault_rep && alloc_calls > fault_alloc_at))) { ++faults_fired; return -1; }
    r = flatcc_builder_default_alloc(ctx, b, request, zero_fill, alloc_type);
    if (r == 0) live_blocks += (b->iov_base != 0) - had;
    return r;
}

static flatcc_builder_t Bs, *B = &Bs; static int have_B, custom;
static jmp_buf cut_jmp; static long api_calls, cut_at;
#define API do { if (cut_at && ++api_calls >= cut_at) longjmp(cut_jmp, 1); } while (0)
#define FAILJ longjmp(cut_jmp, 2)

static flatcc_builder_ref_t created[1 << 17]; static int ncreated;
static flatcc_builder_ref_t remember(flatcc_builder_ref_t r) { if (ncreated < (1 << 17)) created[ncreated++] = r; return r; }

static flatcc_builder_ref_t build_val(node_t *x, int style);
/* flags & 8: the root table's children are created BEFORE the top-level buffer is started (doc/builder.md: "allowed at the
 * top level", the `X_create_as_root(B, child_ref, ...)` pattern); the buffer is started just before the root table itself */
static node_t *pre_root; static const char *pre_idp; static int pre_block_align, pre_bflags;

static void add_field(node_t *x, int id, flatcc_builder_ref_t ref)
{
    if (x->k == 'i') {
        void *p; API; p = flatcc_builder_table_add(B, id, x->size, (uint16_t)x->align);
        if (!p) FAILJ;
        memset(p, 0, x->size); memcpy(p, x->bytes, x->blen < x->size ? x->blen : x->size);
    } else if (x->k == 'U') {
        flatcc_builder_union_ref_t u; u.type = (flatcc_builder_utype_t)x->size; u.value = ref;
        API; if (flatcc_builder_table_add_union(B, id, u)) FAILJ;
    } else if (x->k == 'W') {
        /* handled by caller (needs the pair) */
    } else {
        flatcc_builder_ref_t *p; API; p = flatcc_builder_table_add_offset(B, id);
        if (!p) FAILJ;
        *p = ref;
    }
}

static flatcc_builder_union_vec_ref_t build_uvec(node_t *x, int style)
{
    flatcc_builder_union_vec_ref_t uv; int i;
    flatcc_builder_union_ref_t *ur = calloc((size_t)x->n + 1, sizeof(*ur));
    if (style == 0) {
        for (i = 0; i < x->n; ++i) { ur[i].type = (flatcc_builder_utype_t)x->kid_type[i]; ur[i].value = build_val(x->kid[i], style); }
        API; uv = flatcc_builder_create_union_vector(B, ur, (size_t)x->n);
    } else {
        API; if (flatcc_builder_start_union_vector(B)) { free(ur); FAILJ; }
        for (i = 0; i < x->n; ++i) {
            flatcc_builder_union_ref_t u; u.type = (flatcc_builder_utype_t)x->kid_type[i]; u.value = build_val(x->kid[i], style);
            if (style == 2 && i == x->n / 2) {   /* junk entries pushed / extended, then truncated away before the remaining elements */
                flatcc_builder_union_ref_t junk, *p; junk.type = 0; junk.value = 0;
                API; if (!flatcc_builder_union_vector_push(B, junk)) { free(ur); FAILJ; }
                API; if (!(p = flatcc_builder_extend_union_vector(B, 2))) { free(ur); FAILJ; } p[0] = junk; p[1] = junk;
                API; if (flatcc_builder_truncate_union_vector(B, 3)) { free(ur); FAILJ; }
            }
            if (style == 2 && (i & 1)) { API; if (!flatcc_builder_append_union_vector(B, &u, 1)) { free(ur); FAILJ; } }
            else { API; if (!flatcc_builder_union_vector_push(B, u)) { free(ur); FAILJ; } }
        }
        API; uv = flatcc_builder_end_union_vector(B);
    }
    free(ur);
    if (!uv.type || !uv.value) FAILJ;
    return uv;
}

static flatcc_builder_ref_t build_val(node_t *x, int style)
{
    flatcc_builder_ref_t r = 0; int i;
    switch (x->k) {
    case 'N': case 'i': return 0;
    case 'r': return x->ref < ncreated ? created[x->ref] : 0;
    case 'U': return build_val(x->kid[0], style);
    case 's':
        if (style == 0) { API; r = flatcc_builder_create_string(B, (char *)x->bytes, x->blen); }
        else {
            size_t h = x->blen / 2;
            API; if (flatcc_builder_start_string(B)) FAILJ;
            if (style == 1) {
                API; if (!flatcc_builder_append_string(B, (char *)x->bytes, h)) FAILJ;
                API; if (!flatcc_builder_append_string(B, (char *)x->bytes + h, x->blen - h)) FAILJ;
            } else {
                char *p; API; p = flatcc_builder_extend_string(B, x->blen + 3); if (!p) FAILJ;
                memcpy(p, x->bytes, x->blen); memset(p + x->blen, 'x', 3);
                API; if (flatcc_builder_truncate_string(B, 3)) FAILJ;
            }
            API; r = flatcc_builder_end_string(B);
        }
        break;
    case 'v': {
        size_t count = x->esz ? x->blen / x->esz : 0, maxc = x->esz ? 0xffffffffu / x->esz : 0xffffffffu;
        if (style == 0) { API; r = flatcc_builder_create_vector(B, x->bytes, count, x->esz, (uint16_t)x->align, maxc); }
        else {
            API; if (flatcc_builder_start_vector(B, x->esz, (uint16_t)x->align, maxc)) FAILJ;
            if (style == 1) {
                void *p; API; p = flatcc_builder_extend_vector(B, count); if (!p && count) FAILJ;
                if (count) memcpy(p, x->bytes, count * x->esz);
            } else {
                size_t j, h = count / 2; uint8_t junk[64] = { 0xee };
                for (j = 0; j < h; ++j) { API; if (!flatcc_builder_vector_push(B, x->bytes + j * x->esz)) FAILJ; }
                API; if (!flatcc_builder_append_vector(B, x->bytes + h * x->esz, count - h) && count - h) FAILJ;
                if (x->esz <= 32) {
                    API; if (!flatcc_builder_append_vector(B, junk, 2)) FAILJ;
                    API; if (flatcc_builder_truncate_vector(B, 2)) FAILJ;
                }
            }
            API; r = flatcc_builder_end_vector(B);
        }
        break; }
    case 'u':
        if (style == 0) { API; r = flatcc_builder_create_struct(B, x->bytes, x->blen, (uint16_t)x->align); }
        else {
            void *p; API; p = flatcc_builder_start_struct(B, x->blen, (uint16_t)x->align); if (!p) FAILJ;
            memcpy(p, x->bytes, x->blen);
            API; r = flatcc_builder_end_struct(B);
        }
        break;
    case 'o': {
        flatcc_builder_ref_t *refs = calloc((size_t)x->n + 1, sizeof(*refs));
        if (style == 0) {
            for (i = 0; i < x->n; ++i) refs[i] = build_val(x->kid[i], style);
            API; r = flatcc_builder_create_offset_vector(B, refs, (size_t)x->n);
        } else {
            API; if (flatcc_builder_start_offset_vector(B)) { free(refs); FAILJ; }
            for (i = 0; i < x->n; ++i) {
                flatcc_builder_ref_t c = build_val(x->kid[i], style);
                API; if (!flatcc_builder_offset_vector_push(B, c)) { free(refs); FAILJ; }
            }
            API; r = flatcc_builder_end_offset_vector(B);
        }
        free(refs);
        break; }
    case 'T': {
        int cnt = 0; int outer_style = style;
        if (x == pre_root) style = 0;
        flatcc_builder_ref_t *refs = calloc((size_t)x->n + 1, sizeof(*refs));
        flatcc_builder_union_vec_ref_t *uvs = calloc((size_t)x->n + 1, sizeof(*uvs));
        for (i = 0; i < x->n; ++i) if (x->kid_id[i] >= cnt) cnt = x->kid_id[i] + 1;
        if (style == 2) {   /* start with nothing reserved, extend with reserve_table */
            int c2 = cnt; cnt = 0;
            API; if (flatcc_builder_start_table(B, 0)) FAILJ;
            for (i = 0; i < x->n; ++i) {
                API; if (flatcc_builder_reserve_table(B, c2)) FAILJ;
                if (x->kid[i]->k == 'W') {
                    uvs[i] = build_uvec(x->kid[i], style);
                    API; if (flatcc_builder_table_add_union_vector(B, x->kid_id[i], uvs[i])) FAILJ;
                } else {
                    refs[i] = build_val(x->kid[i], style);
                    add_field(x->kid[i], x->kid_id[i], refs[i]);
                }
            }
        } else if (style == 0) {
            for (i = 0; i < x->n; ++i) {
                if (x->kid[i]->k == 'W') uvs[i] = build_uvec(x->kid[i], outer_style); else refs[i] = build_val(x->kid[i], outer_style);
            }
            if (x == pre_root) { API; if (flatcc_builder_start_buffer(B, pre_idp, (uint16_t)pre_block_align, pre_bflags)) FAILJ; }
            API; if (flatcc_builder_start_table(B, cnt)) FAILJ;
            for (i = 0; i < x->n; ++i) {
                if (x->kid[i]->k == 'W') { API; if (flatcc_builder_table_add_union_vector(B, x->kid_id[i], uvs[i])) FAILJ; }
                else add_field(x->kid[i], x->kid_id[i], refs[i]);
            }
        } else {
            API; if (flatcc_builder_start_table(B, cnt)) FAILJ;
            for (i = 0; i < x->n; ++i) {
                if (x->kid[i]->k == 'W') {
                    uvs[i] = build_uvec(x->kid[i], style);
                    API; if (flatcc_builder_table_add_union_vector(B, x->kid_id[i], uvs[i])) FAILJ;
                } else {
                    refs[i] = build_val(x->kid[i], style);
                    add_field(x->kid[i], x->kid_id[i], refs[i]);
                }
            }
        }
        free(refs); free(uvs);
        API; r = flatcc_builder_end_table(B);
        break; }
    case 'B': {
        flatcc_builder_ref_t root;
        API; if (flatcc_builder_start_buffer(B, x->has_ident ? x->ident : 0, (uint16_t)x->block_align,
                    x->with_size ? flatcc_builder_with_size : 0)) FAILJ;
        root = build_val(x->kid[0], style);
        API; r = flatcc_builder_end_buffer(B, root);
        break; }
    case 'E':
        API; r = flatcc_builder_embed_buffer(B, (uint16_t)x->block_align, x->bytes, x->blen, (uint16_t)x->align,
                x->with_size ? flatcc_builder_with_size : 0);
        break;
    }
    if (!r) FAILJ;
    return remember(r);
}

static void new_builder(int cust)
{
    if (have_B) { flatcc_builder_clear(B); if (custom) flatcc_emitter_clear(&E); }
    custom = cust; live_blocks = 0;
    if (custom) { memset(&E, 0, sizeof E); flatcc_builder_custom_init(B, w_emit, &E, w_alloc, 0); }
    else flatcc_builder_init(B);
    have_B = 1;
}

static size_t footprint(void)
{
    size_t s = 0; int i;
    for (i = 0; i < FLATCC_BUILDER_ALLOC_BUFFER_COUNT; ++i) s += B->buffers[i].iov_len;
    s += custom ? E.capacity : ((flatcc_emitter_t *)flatcc_builder_get_emit_context(B))->capacity;
    return s;
}

/* returns 0 ok, 1 cut, 2 failed */
static int run_build(int flags, const char *ident, int block_align, int style, node_t *root, flatcc_builder_ref_t *out)
{
    char id[4]; const char *idp = 0; int j;
    if (strcmp(ident, "-")) { h_unhex(ident, (uint8_t *)id); idp = id; }
    ncreated = 0; api_calls = 0;
    flatcc_builder_set_vtable_clustering(B, !(flags & 2));
    pre_root = ((flags & 8) && root->k == 'T') ? root : 0; pre_idp = idp; pre_block_align = block_align;
    pre_bflags = (flags & 1) ? flatcc_builder_with_size : 0;
    if ((j = setjmp(cut_jmp))) return j;
    if ((flags & 4) && root->k == 'u') {
        flatcc_builder_ref_t r;
        API; r = flatcc_builder_create_struct(B, root->bytes, root->blen, (uint16_t)root->align);
        if (!r) FAILJ;
        API; *out = flatcc_builder_create_buffer(B, idp, (uint16_t)block_align, r, (uint16_t)root->align,
                (flags & 1) ? flatcc_builder_with_size : 0);
    } else {
        flatcc_builder_ref_t r;
        if (!pre_root) { API; if (flatcc_builder_start_buffer(B, idp, (uint16_t)block_align, (flags & 1) ? flatcc_builder_with_size : 0)) FAILJ; }
        r = build_val(root, style);
        API; *out = flatcc_builder_end_buffer(B, r);
    }
    if (!*out) FAILJ;
    return 0;
}

static void print_result(void)
{
    size_t size = 0; void *buf; uint16_t al = flatcc_builder_get_buffer_alignment(B);
    if (custom) {
        size = flatcc_emitter_get_buffer_size(&E);
        buf = flatcc_builder_aligned_alloc(al ? al : 1, size ? size : 1);
        if (!flatcc_emitter_copy_buffer(&E, buf, size)) { printf("fail copy\n"); flatcc_builder_aligned_free(buf); return; }
    } else {
        buf = flatcc_builder_finalize_aligned_buffer(B, &size);
        if (!buf) { printf("fail finalize\n"); return; }
    }
    printf("ok %u ", (unsigned)al); h_puthex(buf, size);
    if (custom) printf(" %s", elog_len ? elog : "-");
    printf("\n");
    flatcc_builder_aligned_free(buf);
}

int main(void)
{
    static char *toks[1 << 16];
    h_init();
    while (h_getline()) {
        int n = h_split(toks, 1 << 16); const char *op = toks[0];
        if (n >= (1 << 16) - 1) { printf("too-many-tokens\n"); continue; }   /* never run a truncated tree */
        if (!strcmp(op, "fresh") && n >= 2) { new_builder(atoi(toks[1])); elog_len = 0; if (elog) elog[0] = 0; printf("ok\n"); continue; }
        if (!strcmp(op, "alloc") && n >= 4) {   /* flatcc_builder_default_alloc growth policy: alloc <hint> <len0> <r1,r2,..> */
            flatcc_iovec_t b; char *p = toks[3]; int hint = atoi(toks[1]); size_t l0 = (size_t)atol(toks[2]);
            b.iov_base = l0 ? malloc(l0) : 0; b.iov_len = l0;
            while (p && *p) {
                char *q = strchr(p, ','); size_t r = (size_t)atol(p);
                int rc = flatcc_builder_default_alloc(0, &b, r, 0, hint);
                printf("%s%zu", rc ? "!" : "", b.iov_len);
                if (!q) break;
                putchar(','); p = q + 1;
            }
            putchar('\n');
            if (b.iov_base) free(b.iov_base);
            continue;
        }
        if (!strcmp(op, "vtcache") && n >= 2) {   /* vtcache <hash:hexvt,...>: create_cached_vtable called directly on a fresh builder */
            char *p = toks[1];
            new_builder(1); elog_len = 0; if (elog) elog[0] = 0;
            while (p && *p) {
                char *q = strchr(p, ','), *c; size_t len; flatbuffers_voffset_t *vt; flatcc_builder_vt_ref_t r; uint32_t hash;
                if (q) *q = 0;
                c = strchr(p, ':'); if (!c) { printf("bad"); break; }
                *c = 0; hash = (uint32_t)strtoul(p, 0, 10);
                len = h_hexlen(c + 1); vt = malloc(len + 2); h_unhex(c + 1, (uint8_t *)vt);
                r = flatcc_builder_create_cached_vtable(B, vt, (flatbuffers_voffset_t)len, hash);
                printf("%ld", (long)r);
                free(vt);
                if (!q) break;
                putchar(','); p = q + 1;
            }
            putchar('\n');
            continue;
        }
        if (!strcmp(op, "iov") && n >= 5) {
            /* iov <fill> <clustering> <kind> <args..>: the pieces of every emit call one create_* call makes, with `fill` bytes emitted before */
            int fill = atoi(toks[1]); flatcc_builder_ref_t r0 = 0, r = 0; const char *kind = toks[3];
            new_builder(1); elog_len = 0; if (elog) elog[0] = 0;
            flatcc_builder_set_vtable_clustering(B, atoi(toks[2]));
            if (fill) { uint8_t *z = calloc(1, (size_t)fill); r0 = flatcc_builder_create_struct(B, z, (size_t)fill, 1); free(z); }
            plog_len = 0; plog[0] = 0; log_pieces = 1;
            if (!strcmp(kind, "str")) {
                size_t len = h_hexlen(toks[4]); uint8_t *d = malloc(len + 1); h_unhex(toks[4], d);
                r = flatcc_builder_create_string(B, (const char *)d, len); free(d);
            } else if (!strcmp(kind, "vec") && n >= 7) {
                size_t esz = (size_t)atol(toks[4]), len = h_hexlen(toks[6]); uint8_t *d = malloc(len + 1); h_unhex(toks[6], d);
                r = flatcc_builder_create_vector(B, d, esz ? len / esz : 0, esz, (uint16_t)atoi(toks[5]), esz ? 0xffffffffu / esz : 0xffffffffu); free(d);
            } else if (!strcmp(kind, "ovec")) {
                size_t cnt = (size_t)atol(toks[4]), i; flatcc_builder_ref_t *refs = malloc((cnt + 1) * sizeof *refs);
                for (i = 0; i < cnt; ++i) refs[i] = r0;
                r = flatcc_builder_create_offset_vector(B, refs, cnt); free(refs);
            } else if (!strcmp(kind, "struct") && n >= 6) {
                size_t len = h_hexlen(toks[5]); uint8_t *d = malloc(len + 1); h_unhex(toks[5], d);
                r = flatcc_builder_create_struct(B, d, len, (uint16_t)atoi(toks[4])); free(d);
            } else if (!strcmp(kind, "vt")) {
                size_t len = h_hexlen(toks[4]); flatbuffers_voffset_t *vt = malloc(len + 2); h_unhex(toks[4], (uint8_t *)vt);
                r = flatcc_builder_create_vtable(B, vt, (flatbuffers_voffset_t)len); free(vt);
            }
            log_pieces = 0;
            printf("%s %s\n", r ? "ok" : "fail", plog_len ? plog : "-");
            continue;
        }
        if (!have_B) new_builder(1);
        if (!strcmp(op, "opt") && n >= 3) {
            flatcc_builder_set_vtable_cache_limit(B, (size_t)atol(toks[1])); flatcc_builder_set_max_level(B, atoi(toks[2]));
            printf("ok\n"); continue;
        }
        if (!strcmp(op, "reset") && n >= 2) {
            int r = flatcc_builder_custom_reset(B, 0, atoi(toks[1]));
            if (custom) flatcc_emitter_reset(&E);
            elog_len = 0; if (elog) elog[0] = 0;
            printf("%s\n", r ? "fail" : "ok"); continue;
        }
        if (!strcmp(op, "uenter") && n >= 2) {   /* a user frame left open (what an abandoned JSON union parse leaves behind) */
            size_t h = flatcc_builder_enter_user_frame(B, (size_t)atol(toks[1]));
            printf("%s\n", h ? "ok" : "fail"); continue;
        }
        if (!strcmp(op, "mem")) { int i; printf("mem %zu live=%ld", footprint(), live_blocks);
            for (i = 0; i < FLATCC_BUILDER_ALLOC_BUFFER_COUNT; ++i) printf(" %zu", B->buffers[i].iov_len);
            printf(" uf=%zu\n", (size_t)B->user_frame_end); continue; }
        if (!strcmp(op, "clear")) {
            flatcc_builder_clear(B); if (custom) flatcc_emitter_clear(&E); have_B = 0;
            printf("cleared live=%ld mlive=%ld\n", live_blocks, m_live); continue;
        }
        {
            int base = 1, rc; node_t *root; flatcc_builder_ref_t out = 0;
            cut_at = 0; fault_alloc_at = fault_emit_at = 0; fault_rep = 0; faults_fired = 0;
            emit_calls = alloc_calls = 0; m_calls = 0; m_fired = 0; m_fault_at = 0;
            if (!strcmp(op, "partial") && n > 6) { cut_at = atol(toks[1]); base = 2; }
            else if (!strcmp(op, "faulta") && n > 7) { fault_alloc_at = atol(toks[1]); fault_rep = atoi(toks[2]); base = 3; }
            else if (!strcmp(op, "faulte") && n > 7) { fault_emit_at = atol(toks[1]); fault_rep = atoi(toks[2]); base = 3; }
            else if (!strcmp(op, "faultm") && n > 7) { m_fault_at = atol(toks[1]); m_rep = atoi(toks[2]); base = 3; }
            else if (strcmp(op, "build") || n < 6) { printf("bad-op\n"); continue; }
            T = toks; TN = n; TI = base + 4;
            root = parse();
            rc = run_build(atoi(toks[base]), toks[base + 1], atoi(toks[base + 2]), atoi(toks[base + 3]), root, &out);
            fault_alloc_at = fault_emit_at = 0;
            if (!strcmp(op, "faultm")) {
                /* the failing call may also be the final copy-out */
                if (rc == 0) {
                    size_t size = 0; void *buf = flatcc_builder_finalize_aligned_buffer(B, &size);
                    m_fault_at = 0;
                    if (!buf) printf("fail-finalize fired=%ld mallocs=%ld\n", m_fired, m_calls);
                    else { printf("done fired=%ld mallocs=%ld ok %u ", m_fired, m_calls, (unsigned)flatcc_builder_get_buffer_alignment(B)); h_puthex(buf, size); printf("\n"); flatcc_builder_aligned_free(buf); }
                } else { m_fault_at = 0; printf("fail fired=%ld mallocs=%ld\n", m_fired, m_calls); }
                nfree(root); continue;
            }
            if (rc == 1) printf("cut calls=%ld\n", api_calls);
            else if (rc == 2) printf("fail fired=%ld allocs=%ld emits=%ld\n", faults_fired, alloc_calls, emit_calls);
            else if (!strcmp(op, "build")) print_result();
            else { printf("done fired=%ld allocs=%ld emits=%ld calls=%ld ", faults_fired, alloc_calls, emit_calls, api_calls); print_result(); }
            nfree(root);
        }
    }
    if (have_B) { flatcc_builder_clear(B); if (custom) flatcc_emitter_clear(&E); }
    return 0;
}
