/* C16 correspondence harness: generated sort / find / scan / rscan on vectors built with the generated builder.
 * Line:  sort <kind> <items>            items: comma separated `key` or `key:payload`; string keys in hex ("-" = empty)
 *        find|scan|rscan <kind> <items> <b> <e> <key>   (find ignores b,e; e = "end" means flatbuffers_end)
 * kinds: u32 i8 i64 u64 str st(struct S by int k) ls(struct L by long k) tt(table T by uint id) nn(table N by string name)
 */
#include "hcommon.h"
#include "sort_builder.h"
#include "sort_verifier.h"
#undef ns
#define ns(x) FLATBUFFERS_WRAP_NAMESPACE(NS, x)

#define MAXN 4096
static char *items[MAXN]; static int nitems;
static char *keys[MAXN], *pays[MAXN];

static void split_items(char *s) {
    nitems = 0;
    if (!strcmp(s, "_")) return;
    while (nitems < MAXN) {
        char *c;
        items[nitems] = s;
        c = strchr(s, ',');
        if (c) *c = 0;
        keys[nitems] = s;
        pays[nitems] = strchr(s, ':');
        if (pays[nitems]) { *pays[nitems] = 0; pays[nitems]++; } else pays[nitems] = (char *)"";
        ++nitems;
        if (!c) break;
        s = c + 1;
    }
}
static char *unhex_str(const char *h, size_t *len) {
    size_t n = h_hexlen(h); char *p = malloc(n + 1);
    h_unhex(h, (uint8_t *)p); p[n] = 0; *len = n; return p;
}

static void *build(const char *kind, size_t *size) {
    flatcc_builder_t B; int i; void *buf;
    flatcc_builder_init(&B);
    ns(R_start_as_root(&B));
    ns(R_head_create_str(&B, "head-string"));
    if (!strcmp(kind, "u32")) { ns(R_us_start(&B)); for (i = 0; i < nitems; ++i) ns(R_us_push_create(&B, (uint32_t)strtoul(keys[i], 0, 10))); ns(R_us_end(&B)); }
    else if (!strcmp(kind, "i8")) { ns(R_i8s_start(&B)); for (i = 0; i < nitems; ++i) ns(R_i8s_push_create(&B, (int8_t)strtol(keys[i], 0, 10))); ns(R_i8s_end(&B)); }
    else if (!strcmp(kind, "i64")) { ns(R_i64s_start(&B)); for (i = 0; i < nitems; ++i) ns(R_i64s_push_create(&B, (int64_t)strtoll(keys[i], 0, 10))); ns(R_i64s_end(&B)); }
    else if (!strcmp(kind, "u64")) { ns(R_u64s_start(&B)); for (i = 0; i < nitems; ++i) ns(R_u64s_push_create(&B, (uint64_t)strtoull(keys[i], 0, 10))); ns(R_u64s_end(&B)); }
    else if (!strcmp(kind, "str")) { ns(R_ss_start(&B)); for (i = 0; i < nitems; ++i) { size_t n; char *s = unhex_str(keys[i], &n); ns(R_ss_push_create(&B, s, n)); free(s); } ns(R_ss_end(&B)); }
    else if (!strcmp(kind, "st")) { ns(R_st_start(&B)); for (i = 0; i < nitems; ++i) ns(R_st_push_create(&B, (int32_t)strtol(keys[i], 0, 10), (uint8_t)atoi(pays[i]))); ns(R_st_end(&B)); }
    else if (!strcmp(kind, "ls")) { ns(R_ls_start(&B)); for (i = 0; i < nitems; ++i) ns(R_ls_push_create(&B, (uint16_t)atoi(pays[i]), (int64_t)strtoll(keys[i], 0, 10))); ns(R_ls_end(&B)); }
    else if (!strcmp(kind, "tt")) { ns(R_tt_start(&B)); for (i = 0; i < nitems; ++i) {
            ns(T_start(&B)); ns(T_id_add(&B, (uint32_t)strtoul(keys[i], 0, 10))); ns(T_name_create_str(&B, pays[i])); ns(R_tt_push(&B, ns(T_end(&B)))); } ns(R_tt_end(&B)); }
    else if (!strcmp(kind, "nn")) { ns(R_nn_start(&B)); for (i = 0; i < nitems; ++i) { size_t n; char *s = unhex_str(keys[i], &n);
            ns(N_start(&B)); ns(N_v_add(&B, atoi(pays[i]))); ns(N_name_create(&B, s, n)); ns(R_nn_push(&B, ns(N_end(&B)))); free(s); } ns(R_nn_end(&B)); }
    ns(R_tail_create_str(&B, "tail-string"));
    ns(R_end_as_root(&B));
    buf = flatcc_builder_finalize_aligned_buffer(&B, size);
    flatcc_builder_clear(&B);
    return buf;
}

static void pidx(size_t r) { if (r == flatbuffers_not_found) printf("nf\n"); else printf("%zu\n", r); }

#define SCALAR_OPS(KIND, FIELD, VT, PFX, CT, CONV, FMT) \
    if (!strcmp(kind, KIND)) { VT v = ns(R_##FIELD(root)); \
        vlo = (uint8_t *)v; vhi = vlo + PFX##_vec_len(v) * sizeof(CT); \
        if (!strcmp(op, "sort")) { PFX##_vec_sort((PFX##_mutable_vec_t)v); \
            for (i = 0; i < (int)PFX##_vec_len(v); ++i) printf(i ? "," FMT : FMT, PFX##_vec_at(v, (size_t)i)); if (!nitems) printf("_"); } \
        else { CT key = (CT)CONV(tok[5], 0, 10); \
            if (!strcmp(op, "find")) pidx(PFX##_vec_find(v, key)); \
            else if (!strcmp(op, "scan")) pidx(PFX##_vec_scan_ex(v, b, e, key)); \
            else if (!strcmp(op, "rscan")) pidx(PFX##_vec_rscan_ex(v, b, e, key)); \
            else if (!strcmp(op, "scanall")) pidx(PFX##_vec_scan(v, key)); \
            else if (!strcmp(op, "rscanall")) pidx(PFX##_vec_rscan(v, key)); continue; } }

int main(void)
{
    char *tok[8]; h_init();
    while (h_getline()) {
        int n = h_split(tok, 8), i; const char *op = tok[0], *kind; size_t size = 0, b = 0, e = 0;
        void *buf, *copy; uint8_t *vlo = 0, *vhi = 0; ns(R_table_t) root;
        if (n < 3) { printf("bad-op\n"); continue; }
        kind = tok[1];
        split_items(tok[2]);
        if (n >= 6) { b = (size_t)strtoull(tok[3], 0, 10); e = !strcmp(tok[4], "end") ? flatbuffers_end : (size_t)strtoull(tok[4], 0, 10); }
        buf = build(kind, &size);
        if (!buf) { printf("build-failed\n"); continue; }
        if (ns(R_verify_as_root(buf, size))) { printf("built-buffer-does-not-verify\n"); flatcc_builder_aligned_free(buf); continue; }
        copy = malloc(size); memcpy(copy, buf, size);
        root = ns(R_as_root(buf));
        SCALAR_OPS("u32", us, flatbuffers_uint32_vec_t, flatbuffers_uint32, uint32_t, strtoul, "%u")
        else SCALAR_OPS("i8", i8s, flatbuffers_int8_vec_t, flatbuffers_int8, int8_t, strtol, "%d")
        else SCALAR_OPS("i64", i64s, flatbuffers_int64_vec_t, flatbuffers_int64, int64_t, strtoll, "%" PRId64)
        else SCALAR_OPS("u64", u64s, flatbuffers_uint64_vec_t, flatbuffers_uint64, uint64_t, strtoull, "%" PRIu64)
        else if (!strcmp(kind, "str")) { flatbuffers_string_vec_t v = ns(R_ss(root));
            vlo = (uint8_t *)v; vhi = vlo + flatbuffers_string_vec_len(v) * 4;
            if (!strcmp(op, "sort")) { flatbuffers_string_vec_sort((flatbuffers_string_mutable_vec_t)v);
                for (i = 0; i < (int)flatbuffers_string_vec_len(v); ++i) { flatbuffers_string_t s = flatbuffers_string_vec_at(v, (size_t)i);
                    if (i) putchar(','); h_puthex((const uint8_t *)s, flatbuffers_string_len(s)); } if (!nitems) printf("_"); }
            else { size_t kn; char *key = unhex_str(tok[5], &kn);
                if (!strcmp(op, "find")) pidx(flatbuffers_string_vec_find(v, key));
                else if (!strcmp(op, "findn")) pidx(flatbuffers_string_vec_find_n(v, key, kn));
                else if (!strcmp(op, "scan")) pidx(flatbuffers_string_vec_scan_ex(v, b, e, key));
                else if (!strcmp(op, "scann")) pidx(flatbuffers_string_vec_scan_ex_n(v, b, e, key, kn));
                else if (!strcmp(op, "rscan")) pidx(flatbuffers_string_vec_rscan_ex(v, b, e, key));
                else if (!strcmp(op, "rscann")) pidx(flatbuffers_string_vec_rscan_ex_n(v, b, e, key, kn));
                else printf("bad-op\n");
                free(key); goto done; } }
        else if (!strcmp(kind, "st")) { ns(S_vec_t) v = ns(R_st(root));
            vlo = (uint8_t *)v; vhi = vlo + ns(S_vec_len(v)) * sizeof(ns(S_t));
            if (!strcmp(op, "sort")) { ns(S_vec_sort((ns(S_mutable_vec_t))v));
                for (i = 0; i < (int)ns(S_vec_len(v)); ++i) printf(i ? ",%d:%u" : "%d:%u", ns(S_vec_at(v, (size_t)i))->k, ns(S_vec_at(v, (size_t)i))->v); if (!nitems) printf("_"); }
            else { int32_t key = (int32_t)strtol(tok[5], 0, 10);
                if (!strcmp(op, "find")) pidx(ns(S_vec_find_by_k(v, key)));
                else if (!strcmp(op, "scan")) pidx(ns(S_vec_scan_ex_by_k(v, b, e, key)));
                else if (!strcmp(op, "rscan")) pidx(ns(S_vec_rscan_ex_by_k(v, b, e, key)));
                else printf("bad-op\n");
                goto done; } }
        else if (!strcmp(kind, "ls")) { ns(L_vec_t) v = ns(R_ls(root));
            vlo = (uint8_t *)v; vhi = vlo + ns(L_vec_len(v)) * sizeof(ns(L_t));
            if (!strcmp(op, "sort")) { ns(L_vec_sort_by_k((ns(L_mutable_vec_t))v));
                for (i = 0; i < (int)ns(L_vec_len(v)); ++i) printf(i ? ",%" PRId64 ":%u" : "%" PRId64 ":%u", ns(L_vec_at(v, (size_t)i))->k, ns(L_vec_at(v, (size_t)i))->v); if (!nitems) printf("_"); }
            else { int64_t key = (int64_t)strtoll(tok[5], 0, 10);
                if (!strcmp(op, "find")) pidx(ns(L_vec_find(v, key)));
                else if (!strcmp(op, "scan")) pidx(ns(L_vec_scan_ex(v, b, e, key)));
                else if (!strcmp(op, "rscan")) pidx(ns(L_vec_rscan_ex(v, b, e, key)));
                else printf("bad-op\n");
                goto done; } }
        else if (!strcmp(kind, "tt")) { ns(T_vec_t) v = ns(R_tt(root));
            vlo = (uint8_t *)v; vhi = vlo + ns(T_vec_len(v)) * 4;
            if (!strcmp(op, "sort")) { ns(T_vec_sort_by_id((ns(T_mutable_vec_t))v));
                for (i = 0; i < (int)ns(T_vec_len(v)); ++i) printf(i ? ",%u:%s" : "%u:%s", ns(T_id(ns(T_vec_at(v, (size_t)i)))), ns(T_name(ns(T_vec_at(v, (size_t)i))))); if (!nitems) printf("_"); }
            else { uint32_t key = (uint32_t)strtoul(tok[5], 0, 10);
                if (!strcmp(op, "find")) pidx(ns(T_vec_find_by_id(v, key)));
                else if (!strcmp(op, "scan")) pidx(ns(T_vec_scan_ex_by_id(v, b, e, key)));
                else if (!strcmp(op, "rscan")) pidx(ns(T_vec_rscan_ex_by_id(v, b, e, key)));
                else printf("bad-op\n");
                goto done; } }
        else if (!strcmp(kind, "nn")) { ns(N_vec_t) v = ns(R_nn(root));
            vlo = (uint8_t *)v; vhi = vlo + ns(N_vec_len(v)) * 4;
            if (!strcmp(op, "sort")) { ns(N_vec_sort_by_name((ns(N_mutable_vec_t))v));
                for (i = 0; i < (int)ns(N_vec_len(v)); ++i) { flatbuffers_string_t s = ns(N_name(ns(N_vec_at(v, (size_t)i))));
                    if (i) putchar(','); h_puthex((const uint8_t *)s, flatbuffers_string_len(s)); printf(":%d", ns(N_v(ns(N_vec_at(v, (size_t)i))))); } if (!nitems) printf("_"); }
            else { size_t kn; char *key = unhex_str(tok[5], &kn);
                if (!strcmp(op, "find")) pidx(ns(N_vec_find_by_name(v, key)));
                else if (!strcmp(op, "findn")) pidx(ns(N_vec_find_n_by_name(v, key, kn)));
                else if (!strcmp(op, "scan")) pidx(ns(N_vec_scan_ex_by_name(v, b, e, key)));
                else if (!strcmp(op, "scann")) pidx(ns(N_vec_scan_ex_n_by_name(v, b, e, key, kn)));
                else if (!strcmp(op, "rscan")) pidx(ns(N_vec_rscan_ex_by_name(v, b, e, key)));
                else if (!strcmp(op, "rscann")) pidx(ns(N_vec_rscan_ex_n_by_name(v, b, e, key, kn)));
                else printf("bad-op\n");
                free(key); goto done; } }
        else { printf("bad-op\n"); goto done; }
        /* sort: nothing outside the vector body changed, and the buffer still verifies */
        {
            size_t lo = (size_t)(vlo - (uint8_t *)buf), hi = (size_t)(vhi - (uint8_t *)buf);
            int frame = memcmp(buf, copy, lo) == 0 && memcmp((uint8_t *)buf + hi, (uint8_t *)copy + hi, size - hi) == 0;
            int ver = ns(R_verify_as_root(buf, size));
            printf(" frame=%s verify=%s\n", frame ? "same" : "CHANGED", ver ? flatcc_verify_error_string(ver) : "ok");
        }
done:
        free(copy);
        flatcc_builder_aligned_free(buf);
    }
    return 0;
}
