/* C01 correspondence harness.
 *
 * schema <desc>      tables ';' separated, fields ',' separated: id:req:kind[:args]; then '#' unions '|' separated,
 *                    members ',' separated: code:t:<table> | code:st:<size>:<align> | code:str
 *                    kinds: s:<size>:<align>  str  v:<esz>:<align>:<maxc>  sv  t:<table>  tv:<table>  u:<union>  uv:<union>
 *                           nt:<table>:<align> (nested table root)  ns:<size>:<align> (nested struct root)
 * verify <root> <variant> <id-hex8|-> <shift> <hex>
 *                    root: t<idx> or st:<size>:<align>; variant: plain | size | typed | typedsize
 *                    the buffer is placed at an address A with A % 4096 == shift, everything around it poisoned (ASan)
 *                    output: "reject" or "ok <accesses>" where accesses are what the generated reader macros read,
 *                    collected (and actually performed) by a descriptor-driven walk through those macros.
 *
 * The verifier side calls the runtime's flatcc_verify_* exactly as generated verifiers do (a generated table
 * verifier is nothing but such a call list); the reader side uses the macros the compiler emits into
 * flatbuffers_common_reader.h with run-time ids.
 */
#include "hcommon.h"
#include "flatcc/flatcc_verifier.h"
#include "flatbuffers_common_reader.h"
#if defined(__SANITIZE_ADDRESS__)
#include <sanitizer/asan_interface.h>
#else
#define ASAN_POISON_MEMORY_REGION(a, s) ((void)(a), (void)(s))
#define ASAN_UNPOISON_MEMORY_REGION(a, s) ((void)(a), (void)(s))
#endif

enum { K_SCALAR, K_STRING, K_VECTOR, K_SVEC, K_TABLE, K_TVEC, K_UNION, K_UVEC, K_NTAB, K_NSTRUCT };
enum { M_TABLE, M_STRUCT, M_STRING };
typedef struct { unsigned id, required, kind; unsigned long a, b, c; } field_t;
typedef struct { unsigned code, kind; unsigned long a, b; } member_t;
#define MAXT 16
#define MAXF 64
static field_t tables[MAXT][MAXF]; static int nfields[MAXT]; static int ntables;
static member_t unions[MAXT][MAXF]; static int nmembers[MAXT]; static int nunions;

static void parse_schema(char *s)
{
    char *hash = strchr(s, '#'), *t, *f, *save1, *save2;
    ntables = nunions = 0; memset(nfields, 0, sizeof(nfields)); memset(nmembers, 0, sizeof(nmembers));
    if (hash) *hash++ = 0;
    for (t = strtok_r(s, ";", &save1); t && ntables < MAXT; t = strtok_r(0, ";", &save1)) {
        int ti = ntables++;
        if (!strcmp(t, "_")) continue;
        for (f = strtok_r(t, ",", &save2); f && nfields[ti] < MAXF; f = strtok_r(0, ",", &save2)) {
            field_t *x = &tables[ti][nfields[ti]++]; char kind[8] = {0};
            x->a = x->b = x->c = 0;
            sscanf(f, "%u:%u:%7[a-z]:%lu:%lu:%lu", &x->id, &x->required, kind, &x->a, &x->b, &x->c);
            x->kind = !strcmp(kind, "s") ? K_SCALAR : !strcmp(kind, "str") ? K_STRING : !strcmp(kind, "v") ? K_VECTOR :
                      !strcmp(kind, "sv") ? K_SVEC : !strcmp(kind, "t") ? K_TABLE : !strcmp(kind, "tv") ? K_TVEC :
                      !strcmp(kind, "u") ? K_UNION : !strcmp(kind, "nt") ? K_NTAB : !strcmp(kind, "ns") ? K_NSTRUCT : K_UVEC;
        }
    }
    if (hash) for (t = strtok_r(hash, "|", &save1); t && nunions < MAXT; t = strtok_r(0, "|", &save1)) {
        int ui = nunions++;
        if (!strcmp(t, "_")) continue;
        for (f = strtok_r(t, ",", &save2); f && nmembers[ui] < MAXF; f = strtok_r(0, ",", &save2)) {
            member_t *m = &unions[ui][nmembers[ui]++]; char kind[8] = {0};
            m->a = m->b = 0;
            sscanf(f, "%u:%7[a-z]:%lu:%lu", &m->code, kind, &m->a, &m->b);
            m->kind = !strcmp(kind, "t") ? M_TABLE : !strcmp(kind, "st") ? M_STRUCT : M_STRING;
        }
    }
}

/* ---- verifier side: what a generated verifier does, driven by the descriptor ---- */
static int verify_table_generic(flatcc_table_verifier_descriptor_t *td, int ti);
static int verify_union_generic(flatcc_union_verifier_descriptor_t *ud, int ui);
#define TV(n) static int tv##n(flatcc_table_verifier_descriptor_t *td) { return verify_table_generic(td, n); }
#define UV(n) static int uv##n(flatcc_union_verifier_descriptor_t *ud) { return verify_union_generic(ud, n); }
TV(0) TV(1) TV(2) TV(3) TV(4) TV(5) TV(6) TV(7) TV(8) TV(9) TV(10) TV(11) TV(12) TV(13) TV(14) TV(15)
UV(0) UV(1) UV(2) UV(3) UV(4) UV(5) UV(6) UV(7) UV(8) UV(9) UV(10) UV(11) UV(12) UV(13) UV(14) UV(15)
static flatcc_table_verifier_f *tvs[MAXT] = { tv0, tv1, tv2, tv3, tv4, tv5, tv6, tv7, tv8, tv9, tv10, tv11, tv12, tv13, tv14, tv15 };
static flatcc_union_verifier_f *uvs[MAXT] = { uv0, uv1, uv2, uv3, uv4, uv5, uv6, uv7, uv8, uv9, uv10, uv11, uv12, uv13, uv14, uv15 };

static int verify_union_generic(flatcc_union_verifier_descriptor_t *ud, int ui)
{
    int i;
    for (i = 0; i < nmembers[ui]; ++i) {
        member_t *m = &unions[ui][i];
        if (m->code != ud->type) continue;
        switch (m->kind) {
        case M_TABLE: return flatcc_verify_union_table(ud, tvs[m->a % MAXT]);
        case M_STRUCT: return flatcc_verify_union_struct(ud, m->a, (uint16_t)m->b);
        default: return flatcc_verify_union_string(ud);
        }
    }
    return flatcc_verify_ok; /* default: unknown type accepted, as generated */
}

static int verify_table_generic(flatcc_table_verifier_descriptor_t *td, int ti)
{
    int i, ret;
    for (i = 0; i < nfields[ti]; ++i) {
        field_t *f = &tables[ti][i];
        switch (f->kind) {
        case K_SCALAR: ret = flatcc_verify_field(td, (flatbuffers_voffset_t)f->id, f->a, (uint16_t)f->b); break;
        case K_STRING: ret = flatcc_verify_string_field(td, (flatbuffers_voffset_t)f->id, (int)f->required); break;
        case K_VECTOR: ret = flatcc_verify_vector_field(td, (flatbuffers_voffset_t)f->id, (int)f->required, f->a, (uint16_t)f->b, f->c); break;
        case K_SVEC: ret = flatcc_verify_string_vector_field(td, (flatbuffers_voffset_t)f->id, (int)f->required); break;
        case K_TABLE: ret = flatcc_verify_table_field(td, (flatbuffers_voffset_t)f->id, (int)f->required, tvs[f->a % MAXT]); break;
        case K_TVEC: ret = flatcc_verify_table_vector_field(td, (flatbuffers_voffset_t)f->id, (int)f->required, tvs[f->a % MAXT]); break;
        case K_UNION: ret = flatcc_verify_union_field(td, (flatbuffers_voffset_t)f->id, (int)f->required, uvs[f->a % MAXT]); break;
        /* nt:<table>:<align>  ns:<size>:<align> — the arguments as the generated call passes them */
        case K_NTAB: ret = flatcc_verify_table_as_nested_root(td, (flatbuffers_voffset_t)f->id, (int)f->required, 0, (uint16_t)f->b, tvs[f->a % MAXT]); break;
        case K_NSTRUCT: ret = flatcc_verify_struct_as_nested_root(td, (flatbuffers_voffset_t)f->id, (int)f->required, 0, f->a, (uint16_t)f->b); break;
        default: ret = flatcc_verify_union_vector_field(td, (flatbuffers_voffset_t)f->id, (int)f->required, uvs[f->a % MAXT]); break;
        }
        if (ret) return ret;
    }
    return flatcc_verify_ok;
}

/* ---- reader side: generated macros with run-time ids; every access is logged and performed ---- */
static const uint8_t *B0; static volatile uint8_t sink; static int first_acc;
static void acc(const void *p, size_t len, size_t align)
{
    size_t i; const volatile uint8_t *q = p;
    printf(first_acc ? "%ld:%zu:%zu" : ",%ld:%zu:%zu", (long)((const uint8_t *)p - B0), len, align); first_acc = 0;
    for (i = 0; i < len; ++i) sink ^= q[i];   /* ASan: faults if outside the buffer */
}
static flatbuffers_voffset_t rd_vt(const void *t, unsigned id) { __flatbuffers_read_vt(id, off__tmp, t) return off__tmp; }
static const void *scalar_ptr(const void *t, unsigned id) __flatbuffers_scalar_field(uint8_t, id, t)
static const void *vector_ptr(const void *t, unsigned id) __flatbuffers_vector_field(const void *, id, t, 0)
static const void *table_ptr(const void *t, unsigned id) __flatbuffers_table_field(const void *, id, t, 0)
static uint8_t union_type(const void *t, unsigned id) __flatbuffers_union_type_field(id, t)

/* the reads `__flatbuffers_read_vt` makes (soffset, vtable size, entry if inside the vtable) */
static flatbuffers_voffset_t log_vt(const void *t, unsigned id)
{
    const uint8_t *vt = (const uint8_t *)t - __flatbuffers_soffset_read_from_pe(t);
    flatbuffers_voffset_t vsize;
    acc(t, 4, 4); acc(vt, 2, 2);
    vsize = __flatbuffers_voffset_read_from_pe(vt);
    if (vsize >= 2 * (id + 3u)) acc(vt + 2 * (id + 2u), 2, 2);
    return rd_vt(t, id);
}
static void walk_table(const void *t, int ti, int depth);
static void walk_string(const char *s) /* s points past the header, as the API returns it */
{
    size_t n; acc(s - 4, 4, 4); n = flatbuffers_string_len(s); acc(s, n + 1, 1);
}
static void walk_member(const void *p, int ui, unsigned type, int depth)
{
    int i;
    for (i = 0; i < nmembers[ui]; ++i) {
        member_t *m = &unions[ui][i];
        if (m->code != type) continue;
        if (m->kind == M_TABLE) walk_table(p, (int)(m->a % MAXT), depth + 1);
        else if (m->kind == M_STRUCT) acc(p, m->a, m->b);
        else walk_string(flatbuffers_string_cast_from_generic(p));
        return;
    }
}
static void walk_table(const void *t, int ti, int depth)
{
    int i; size_t k, n;
    if (depth > 1000) { printf(",DEPTH"); return; }
    for (i = 0; i < nfields[ti]; ++i) {
        field_t *f = &tables[ti][i]; flatbuffers_voffset_t vte;
        switch (f->kind) {
        case K_SCALAR: vte = log_vt(t, f->id); if (vte) acc(scalar_ptr(t, f->id), f->a, f->b); break;
        case K_STRING: vte = log_vt(t, f->id); if (vte) { acc((const uint8_t *)t + vte, 4, 4); walk_string(vector_ptr(t, f->id)); } break;
        case K_VECTOR: vte = log_vt(t, f->id); if (vte) { const uint8_t *v; acc((const uint8_t *)t + vte, 4, 4); v = vector_ptr(t, f->id);
                acc(v - 4, 4, 4); n = flatbuffers_vec_len(v); acc(v, n * f->a, n ? f->b : 1); } break;
        case K_SVEC: vte = log_vt(t, f->id); if (vte) { flatbuffers_string_vec_t v; acc((const uint8_t *)t + vte, 4, 4); v = vector_ptr(t, f->id);
                acc((const uint8_t *)v - 4, 4, 4); n = flatbuffers_string_vec_len(v);
                for (k = 0; k < n; ++k) { acc(v + k, 4, 4); walk_string(flatbuffers_string_vec_at(v, k)); } } break;
        case K_TABLE: vte = log_vt(t, f->id); if (vte) { acc((const uint8_t *)t + vte, 4, 4); walk_table(table_ptr(t, f->id), (int)(f->a % MAXT), depth + 1); } break;
        case K_TVEC: vte = log_vt(t, f->id); if (vte) { flatbuffers_generic_vec_t v; acc((const uint8_t *)t + vte, 4, 4); v = vector_ptr(t, f->id);
                acc((const uint8_t *)v - 4, 4, 4); n = flatbuffers_generic_vec_len(v);
                for (k = 0; k < n; ++k) { acc(v + k, 4, 4); walk_table(flatbuffers_generic_vec_at(v, k), (int)(f->a % MAXT), depth + 1); } } break;
        case K_UNION: { uint8_t ty; vte = log_vt(t, f->id - 1); if (!vte) break;
                acc((const uint8_t *)t + vte, 1, 1); ty = union_type(t, f->id - 1); if (!ty) break;
                vte = log_vt(t, f->id); if (!vte) break;
                acc((const uint8_t *)t + vte, 4, 4); walk_member(table_ptr(t, f->id), (int)(f->a % MAXT), ty, depth); } break;
        /* nested buffers: <field>(t) is the ubyte vector; <field>_as_root(t) = __flatbuffers_nested_buffer_as_root: T_as_root / S_as_root
           on the pointer to the vector's first byte (root offset read there, then the table / struct relative to that pointer) */
        case K_NTAB: vte = log_vt(t, f->id); if (vte) { const uint8_t *v; acc((const uint8_t *)t + vte, 4, 4); v = vector_ptr(t, f->id);
                acc(v - 4, 4, 4); n = flatbuffers_vec_len(v); acc(v, n, 1);
                acc(v, 4, 4); walk_table(v + __flatbuffers_uoffset_read_from_pe(v), (int)(f->a % MAXT), depth + 1); } break;
        case K_NSTRUCT: vte = log_vt(t, f->id); if (vte) { const uint8_t *v; acc((const uint8_t *)t + vte, 4, 4); v = vector_ptr(t, f->id);
                acc(v - 4, 4, 4); n = flatbuffers_vec_len(v); acc(v, n, 1);
                acc(v, 4, 4); acc(v + __flatbuffers_uoffset_read_from_pe(v), f->a, f->b); } break;
        default: { const uint8_t *types = 0; flatbuffers_generic_vec_t vals = 0;
                vte = log_vt(t, f->id - 1);
                if (vte) { acc((const uint8_t *)t + vte, 4, 4); types = vector_ptr(t, f->id - 1); acc(types - 4, 4, 4); n = flatbuffers_vec_len(types); acc(types, n, 1); }
                vte = log_vt(t, f->id);
                if (vte) { acc((const uint8_t *)t + vte, 4, 4); vals = vector_ptr(t, f->id); acc((const uint8_t *)vals - 4, 4, 4); }
                if (types) { n = flatbuffers_vec_len(types);
                    for (k = 0; k < n; ++k) { if (!types[k]) continue;
                        if (!vals) { printf(",NULLDEREF"); break; }   /* U_union_vec_at would dereference a null value vector */
                        acc(vals + k, 4, 4); walk_member(flatbuffers_generic_vec_at(vals, k), (int)(f->a % MAXT), types[k], depth); } }
            } break;
        }
    }
}

int main(void)
{
    char *tok[8]; size_t pg = (size_t)sysconf(_SC_PAGESIZE);
    size_t maplen = 64 * 1024 * 1024 + 3 * pg; uint8_t *map;
    h_init();
    map = mmap(0, maplen, PROT_READ | PROT_WRITE, MAP_PRIVATE | MAP_ANONYMOUS | MAP_NORESERVE, -1, 0);
    if (map == MAP_FAILED) { perror("mmap"); return 2; }
    ASAN_POISON_MEMORY_REGION(map, maplen);
    while (h_getline()) {
        int n;
        if (!strncmp(h_line, "schema ", 7)) { parse_schema(h_line + 7); printf("schema %d %d\n", ntables, nunions); continue; }
        n = h_split(tok, 8);
        if (n >= 6 && !strcmp(tok[0], "verify")) {
            size_t len = h_hexlen(tok[5]), shift = (size_t)strtoul(tok[4], 0, 10) % 4096; uint8_t *buf = map + pg + shift;
            const char *root = tok[1], *variant = tok[2]; int ret, with_size = strstr(variant, "size") != 0, typed = !strncmp(variant, "typed", 5);
            char fid[5] = {0}; flatbuffers_thash_t thash = 0; int has_id = strcmp(tok[3], "-") != 0;
            if (len + pg + 4096 > maplen - 2 * pg) { printf("too-large\n"); continue; }
            ASAN_UNPOISON_MEMORY_REGION(buf, len);
            h_unhex(tok[5], buf);
            if (has_id) { uint8_t idb[4]; h_unhex(tok[3], idb); memcpy(fid, idb, 4); thash = (uint32_t)idb[0] | (uint32_t)idb[1] << 8 | (uint32_t)idb[2] << 16 | (uint32_t)idb[3] << 24; }
            if (root[0] == 't') {
                int ti = atoi(root + 1) % MAXT;
                ret = typed ? (with_size ? flatcc_verify_table_as_typed_root_with_size(buf, len, thash, tvs[ti]) : flatcc_verify_table_as_typed_root(buf, len, thash, tvs[ti]))
                            : (with_size ? flatcc_verify_table_as_root_with_size(buf, len, has_id ? fid : 0, tvs[ti]) : flatcc_verify_table_as_root(buf, len, has_id ? fid : 0, tvs[ti]));
                if (ret) printf("reject %s\n", flatcc_verify_error_string(ret));
                else { const uint8_t *b = with_size ? buf + 4 : buf; B0 = buf; first_acc = 1; printf("ok ");
                    acc(b, 4, 4); walk_table(b + __flatbuffers_uoffset_read_from_pe(b), ti, 0); printf("\n"); }
            } else {
                unsigned long size = 0, align = 1; sscanf(root, "st:%lu:%lu", &size, &align);
                ret = typed ? (with_size ? flatcc_verify_struct_as_typed_root_with_size(buf, len, thash, size, (uint16_t)align) : flatcc_verify_struct_as_typed_root(buf, len, thash, size, (uint16_t)align))
                            : (with_size ? flatcc_verify_struct_as_root_with_size(buf, len, has_id ? fid : 0, size, (uint16_t)align) : flatcc_verify_struct_as_root(buf, len, has_id ? fid : 0, size, (uint16_t)align));
                if (ret) printf("reject %s\n", flatcc_verify_error_string(ret));
                else { const uint8_t *b = with_size ? buf + 4 : buf; B0 = buf; first_acc = 1; printf("ok ");
                    acc(b, 4, 4); acc(b + __flatbuffers_uoffset_read_from_pe(b), size, align); printf("\n"); }
            }
            ASAN_POISON_MEMORY_REGION(buf, len);
        } else printf("bad-op\n");
    }
    return 0;
}
