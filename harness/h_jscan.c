/* C04 correspondence harness for the generic JSON scanners.
 * line:   jscan <fn> <flags> <startpos> <hex-bytes>     (flags: parser flags, +256 = ctx->unquoted initially 1)
 * answer: <pos|err:class> <error_loc|-> p<returned pos> m<more> u<unquoted> l<line> c<pos field>
 * The bytes are copied to an exact-length malloc block so that ASan reports any read at or behind `end`.
 * json_parser.c is #included to reach the static __flatcc_json_parser_number. */
#include <stdio.h>
#include <stdlib.h>
#include <string.h>
#include <stdint.h>
#include <unistd.h>
#include <signal.h>
#include "../src/runtime/json_parser.c"   /* resolved through -I <repo>/include */

#if defined(__SANITIZE_ADDRESS__)
void __sanitizer_set_death_callback(void (*cb)(void));
static void h_death(void) { fflush(stdout); }
#endif
static void h_sig(int s) { fflush(stdout); fprintf(stderr, "[harness] fatal signal %d\n", s); _exit(70); }

static int hexv(int c) { return c <= '9' ? c - '0' : (c | 0x20) - 'a' + 10; }

static const char *errname(int e)
{
    static char tmp[32];
    switch (e) {
    case flatcc_json_parser_error_deep_nesting: return "deep_nesting";
    case flatcc_json_parser_error_expected_colon: return "expected_colon";
    case flatcc_json_parser_error_unexpected_character: return "unexpected_character";
    case flatcc_json_parser_error_invalid_numeric: return "invalid_numeric";
    case flatcc_json_parser_error_unbalanced_array: return "unbalanced_array";
    case flatcc_json_parser_error_unbalanced_object: return "unbalanced_object";
    case flatcc_json_parser_error_unknown_symbol: return "unknown_symbol";
    case flatcc_json_parser_error_expected_string: return "expected_string";
    case flatcc_json_parser_error_invalid_character: return "invalid_character";
    case flatcc_json_parser_error_invalid_escape: return "invalid_escape";
    case flatcc_json_parser_error_unterminated_string: return "unterminated_string";
    case flatcc_json_parser_error_expected_object: return "expected_object";
    case flatcc_json_parser_error_expected_array: return "expected_array";
    default: sprintf(tmp, "e%d", e); return tmp;
    }
}

int main(void)
{
    char *line = 0; size_t cap = 0; ssize_t n;
    setvbuf(stdout, 0, _IOLBF, 0);
#if defined(__SANITIZE_ADDRESS__)
    __sanitizer_set_death_callback(h_death);
#else
    signal(SIGSEGV, h_sig); signal(SIGBUS, h_sig); signal(SIGABRT, h_sig);
#endif
    signal(SIGALRM, h_sig);
    for (;;) {
        char *tok[6]; int nt = 0; char *p;
        alarm(30);
        n = getline(&line, &cap, stdin);
        if (n < 0) break;
        while (n > 0 && (line[n-1] == '\n' || line[n-1] == '\r')) line[--n] = 0;
        p = line;
        while (nt < 6) { tok[nt++] = p; p = strchr(p, ' '); if (!p) break; *p++ = 0; }
        if (nt != 5 || strcmp(tok[0], "jscan")) { printf("bad-op\n"); continue; }
        {
            const char *fn = tok[1];
            unsigned fl = (unsigned)strtoul(tok[2], 0, 10);
            size_t start = (size_t)strtoul(tok[3], 0, 10);
            size_t len = strcmp(tok[4], "-") == 0 ? 0 : strlen(tok[4]) / 2, i;
            char *buf = malloc(len ? len : 1);   /* exact size (len 0: one byte that must never be read either) */
            char *exact = len ? buf : buf + 1;   /* for len 0 point at the end of the block */
            const char *end, *q = 0, *b;
            flatcc_json_parser_t ctx;
            int more = 0, known = 1;
            for (i = 0; i < len; ++i) exact[i] = (char)(hexv(tok[4][2*i]) * 16 + hexv(tok[4][2*i+1]));
            end = exact + len;
            if (start > len) { printf("bad-op\n"); free(buf); continue; }
            flatcc_json_parser_init(&ctx, 0, exact, end, fl & 255u);
            ctx.unquoted = (fl >> 8) & 1;
            b = exact + start;
            if (!strcmp(fn, "space")) q = flatcc_json_parser_space(&ctx, b, end);
            else if (!strcmp(fn, "spaceext")) q = flatcc_json_parser_space_ext(&ctx, b, end);
            else if (!strcmp(fn, "number")) q = __flatcc_json_parser_number(&ctx, b, end);
            else if (!strcmp(fn, "skipconst")) q = flatcc_json_parser_skip_constant(&ctx, b, end);
            else if (!strcmp(fn, "unmatched")) q = flatcc_json_parser_unmatched_symbol(&ctx, b, end);
            else if (!strcmp(fn, "generic")) q = flatcc_json_parser_generic_json(&ctx, b, end);
            else if (!strcmp(fn, "symstart")) q = flatcc_json_parser_symbol_start(&ctx, b, end);
            else if (!strcmp(fn, "symend")) q = flatcc_json_parser_symbol_end(&ctx, b, end);
            else if (!strcmp(fn, "conststart")) q = flatcc_json_parser_constant_start(&ctx, b, end);
            else if (!strcmp(fn, "strstart")) q = flatcc_json_parser_string_start(&ctx, b, end);
            else if (!strcmp(fn, "strend")) q = flatcc_json_parser_string_end(&ctx, b, end);
            else if (!strcmp(fn, "strpart")) q = flatcc_json_parser_string_part(&ctx, b, end);
            else if (!strcmp(fn, "stresc")) { flatcc_json_parser_escape_buffer_t code; q = flatcc_json_parser_string_escape(&ctx, b, end, code); }
            else if (!strcmp(fn, "objstart")) q = flatcc_json_parser_object_start(&ctx, b, end, &more);
            else if (!strcmp(fn, "objend")) q = flatcc_json_parser_object_end(&ctx, b, end, &more);
            else if (!strcmp(fn, "arrstart")) q = flatcc_json_parser_array_start(&ctx, b, end, &more);
            else if (!strcmp(fn, "arrend")) q = flatcc_json_parser_array_end(&ctx, b, end, &more);
            else known = 0;
            if (!known) { printf("bad-op\n"); free(buf); continue; }
            if (ctx.error) printf("err:%s %ld", errname(ctx.error), (long)(ctx.error_loc - exact));
            else printf("%ld -", (long)(q - exact));
            printf(" p%ld m%d u%d l%d c%d\n", (long)(q - exact), more, ctx.unquoted, ctx.line, ctx.pos);
            free(buf);
        }
    }
    free(line);
    return 0;
}
