/* Shared helpers for the correspondence harnesses: line reading, hex, guard-page buffers. */
#ifndef HCOMMON_H
#define HCOMMON_H
#include <stdio.h>
#include <stdlib.h>
#include <string.h>
#include <stdint.h>
#include <inttypes.h>
#include <sys/mman.h>
#include <unistd.h>

#include <signal.h>
#if defined(__has_feature)
#if __has_feature(address_sanitizer)
#define H_SAN 1
#endif
#endif
#if defined(__SANITIZE_ADDRESS__)
#define H_SAN 1
#endif
#ifdef H_SAN
void __sanitizer_set_death_callback(void (*cb)(void));
#endif
static void h_death(void) { fflush(stdout); }
static void h_sig(int s) { fflush(stdout); fprintf(stderr, "[harness] fatal signal %d\n", s); _exit(70); }
/* output produced before a crash must survive: the driver uses the count of complete lines to find the crashing op */
static void h_init(void) {
    setvbuf(stdout, 0, _IOLBF, 0);
#ifdef H_SAN
    __sanitizer_set_death_callback(h_death);
#else
    signal(SIGSEGV, h_sig); signal(SIGBUS, h_sig); signal(SIGABRT, h_sig); signal(SIGFPE, h_sig);
#endif
    signal(SIGALRM, h_sig);
}
static char *h_line = 0; static size_t h_cap = 0;
static int h_getline(void) {
    ssize_t n;
    alarm(30); /* per-operation watchdog: a hang is a result (reported as a crash of this line) */
    n = getline(&h_line, &h_cap, stdin);
    if (n < 0) return 0;
    while (n > 0 && (h_line[n-1] == '\n' || h_line[n-1] == '\r')) h_line[--n] = 0;
    return 1;
}
/* split h_line in place on single spaces */
static int h_split(char **tok, int max) {
    int n = 0; char *p = h_line;
    while (n < max) {
        tok[n++] = p;
        p = strchr(p, ' ');
        if (!p) break;
        *p++ = 0;
    }
    return n;
}
static int h_hexv(int c) { return c <= '9' ? c - '0' : (c | 0x20) - 'a' + 10; }
/* "-" = empty. returns length; writes into malloc'd exact-size buffer */
static size_t h_hexlen(const char *s) { return strcmp(s, "-") == 0 ? 0 : strlen(s) / 2; }
static void h_unhex(const char *s, uint8_t *out) {
    size_t n = h_hexlen(s), i;
    for (i = 0; i < n; ++i) out[i] = (uint8_t)(h_hexv(s[2*i]) * 16 + h_hexv(s[2*i+1]));
}
static void h_puthex(const uint8_t *p, size_t n) {
    size_t i; if (n == 0) { putchar('-'); return; }
    for (i = 0; i < n; ++i) printf("%02x", p[i]);
}
/* Guard-page allocation: returns a region of n bytes which ENDS exactly at a PROT_NONE page
   (at_end=1) or STARTS right after one (at_end=0). align: required alignment of the start. */
typedef struct { uint8_t *map; size_t maplen; uint8_t *p; } h_guard_t;
static int h_guard_alloc(h_guard_t *g, size_t n, size_t align, int at_end) {
    size_t pg = (size_t)sysconf(_SC_PAGESIZE);
    size_t body = ((n + align + pg - 1) / pg + 1) * pg;
    g->maplen = body + 2 * pg;
    g->map = mmap(0, g->maplen, PROT_READ | PROT_WRITE, MAP_PRIVATE | MAP_ANONYMOUS, -1, 0);
    if (g->map == MAP_FAILED) return -1;
    mprotect(g->map, pg, PROT_NONE);
    mprotect(g->map + pg + body, pg, PROT_NONE);
    if (at_end) {
        uintptr_t e = (uintptr_t)(g->map + pg + body);
        uintptr_t s = e - n;
        s &= ~(uintptr_t)(align - 1); /* may leave up to align-1 slack bytes before the guard */
        g->p = (uint8_t *)s;
    } else {
        g->p = g->map + pg;
    }
    return 0;
}
static void h_guard_free(h_guard_t *g) { munmap(g->map, g->maplen); }
#endif
