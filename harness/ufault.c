/* C13: a union vector whose type vector (3000 elements) is larger than the user stack the JSON parser has at that point; every allocator
 * request of the parse is refused in turn (fresh builder each time). Schema: table A { x:int; } union U { A } table T { v:[U]; } */
#include <stdio.h>
#include <string.h>
#include <stdlib.h>
#include "s_builder.h"
#include "s_verifier.h"
#include "s_json_parser.h"
static long calls, fail_at;
static int my_alloc(void *ctx, flatcc_iovec_t *b, size_t request, int zero_fill, int alloc_type) {
    if (request) { ++calls; if (fail_at && calls == fail_at) return -1; }
    return flatcc_builder_default_alloc(ctx, b, request, zero_fill, alloc_type);
}
int main(void) {
    int n = 3000, i, order; size_t cap = 60000; long total = 0, refused = 0, ok = 0;
    for (order = 0; order < 2; ++order) {       /* type vector before / after the value vector */
        char *text = malloc(cap), *p = text;
        p += sprintf(p, "{");
        if (order) { p += sprintf(p, "\"v\":["); for (i = 0; i < n; ++i) p += sprintf(p, "%snull", i ? "," : ""); p += sprintf(p, "],"); }
        p += sprintf(p, "\"v_type\":["); for (i = 0; i < n; ++i) p += sprintf(p, "%s0", i ? "," : ""); p += sprintf(p, "]");
        if (!order) { p += sprintf(p, ",\"v\":["); for (i = 0; i < n; ++i) p += sprintf(p, "%snull", i ? "," : ""); p += sprintf(p, "]"); }
        p += sprintf(p, "}");
        for (fail_at = 0; ; ++fail_at) {
            flatcc_builder_t b; flatcc_json_parser_t jc; int rc; void *buf; size_t size;
            calls = 0;
            if (flatcc_builder_custom_init(&b, 0, 0, my_alloc, 0)) return 2;
            memset(&jc, 0, sizeof jc);
            rc = T_parse_json_as_root(&b, &jc, text, (size_t)(p - text), 0, 0);
            if (rc) ++refused;
            else { buf = flatcc_builder_finalize_aligned_buffer(&b, &size); if (buf) { if (T_verify_as_root(buf, size)) { printf("BAD order=%d fail_at=%ld: success with a buffer that does not verify\n", order, fail_at); } else ++ok; flatcc_builder_aligned_free(buf); } else ++refused; }
            if (fail_at == 0) { total = calls; if (rc) { printf("BAD order=%d: the fault-free parse fails (%d)\n", order, jc.error); break; } }
            flatcc_builder_clear(&b);
            if (fail_at >= total) break;
        }
        free(text);
    }
    printf("done refused=%ld ok=%ld\n", refused, ok);
    return 0;
}
