/* C17 correspondence harness: flatcc_identifier.h, generated has_identifier / has_type_hash, builder-stored identifier. */
#include "hcommon.h"
#include "flatcc/flatcc_builder.h"
#include "flatbuffers_common_reader.h"

int main(void)
{
    char *tok[8]; h_init();
    while (h_getline()) {
        int n = h_split(tok, 8);
        if (n < 3 || strcmp(tok[0], "ident")) { printf("bad-op\n"); continue; }
        if (!strcmp(tok[1], "hash")) {
            size_t len = h_hexlen(tok[2]); char *s = calloc(len + 1, 1); h_unhex(tok[2], (uint8_t *)s);
            printf("%u\n", flatbuffers_type_hash_from_name(s)); free(s);
        } else if (!strcmp(tok[1], "fromstr")) {
            size_t len = h_hexlen(tok[2]); char *s = calloc(len + 5, 1); h_unhex(tok[2], (uint8_t *)s);
            printf("%u\n", flatbuffers_type_hash_from_string(s)); free(s);
        } else if (!strcmp(tok[1], "id2hash")) {
            char id[4]; h_unhex(tok[2], (uint8_t *)id); printf("%u\n", flatbuffers_type_hash_from_identifier(id));
        } else if (!strcmp(tok[1], "hash2id")) {
            flatbuffers_fid_t id; flatbuffers_identifier_from_type_hash((flatbuffers_thash_t)strtoul(tok[2], 0, 10), id);
            h_puthex((uint8_t *)id, 4); printf("\n");
        } else if (!strcmp(tok[1], "has") && n >= 4) {
            uint32_t b[2]; char fid[8] = {0}; uint32_t stored = (uint32_t)strtoul(tok[3], 0, 10);
            b[0] = 8; b[1] = stored; /* little endian host */
            if (strcmp(tok[2], "null")) h_unhex(tok[2], (uint8_t *)fid);
            printf("%d\n", flatbuffers_has_identifier(b, strcmp(tok[2], "null") ? fid : 0) != 0);
        } else if (!strcmp(tok[1], "hastype") && n >= 4) {
            uint32_t b[2]; b[0] = 8; b[1] = (uint32_t)strtoul(tok[3], 0, 10);
            printf("%d\n", flatbuffers_has_type_hash(b, (flatbuffers_thash_t)strtoul(tok[2], 0, 10)) != 0);
        } else if (!strcmp(tok[1], "stored") && n >= 4) {
            /* finish an empty table with the given identifier; report whether an identifier field was emitted and its bytes */
            flatcc_builder_t B; char fid[4]; int with_size = atoi(tok[3]); size_t size, size0; uint8_t *buf, *buf0;
            flatcc_builder_ref_t t; int null = !strcmp(tok[2], "null");
            if (!null) h_unhex(tok[2], (uint8_t *)fid);
            flatcc_builder_init(&B);
            flatcc_builder_start_buffer(&B, 0, 0, with_size ? flatcc_builder_with_size : 0);
            flatcc_builder_start_table(&B, 0); t = flatcc_builder_end_table(&B);
            flatcc_builder_end_buffer(&B, t);
            buf0 = flatcc_builder_finalize_aligned_buffer(&B, &size0);
            flatcc_builder_reset(&B);
            flatcc_builder_start_buffer(&B, null ? 0 : fid, 0, with_size ? flatcc_builder_with_size : 0);
            flatcc_builder_start_table(&B, 0); t = flatcc_builder_end_table(&B);
            flatcc_builder_end_buffer(&B, t);
            buf = flatcc_builder_finalize_aligned_buffer(&B, &size);
            /* an identifier field was emitted iff the root offset grew by 4 compared with the id-less buffer */
            {
                unsigned o = with_size ? 4 : 0;
                uint32_t r0 = buf0[o] | buf0[o+1] << 8, r1 = buf[o] | buf[o+1] << 8;
                if (r1 == r0) printf("none\n");
                else { printf("id "); h_puthex(buf + o + 4, 4); printf("\n"); }
            }
            flatcc_builder_aligned_free(buf); flatcc_builder_aligned_free(buf0);
            flatcc_builder_clear(&B);
        } else if (!strcmp(tok[1], "nstored") && n >= 4) {
            /* a nested buffer finished with identifier <nid|null> inside a buffer that carries <pid|null>: prints the nested buffer's bytes */
            flatcc_builder_t B; char pid[4], nid[4]; int pnull = !strcmp(tok[2], "null"), nnull = !strcmp(tok[3], "null"); size_t size;
            flatcc_builder_ref_t t, nref, *slot; uint8_t *buf;
            if (!pnull) h_unhex(tok[2], (uint8_t *)pid);
            if (!nnull) h_unhex(tok[3], (uint8_t *)nid);
            flatcc_builder_init(&B);
            flatcc_builder_start_buffer(&B, pnull ? 0 : pid, 0, 0);
            flatcc_builder_start_table(&B, 1);
            flatcc_builder_start_buffer(&B, nnull ? 0 : nid, 0, 0);
            flatcc_builder_start_table(&B, 0); t = flatcc_builder_end_table(&B);
            nref = flatcc_builder_end_buffer(&B, t);
            slot = flatcc_builder_table_add_offset(&B, 0); if (slot) *slot = nref;
            t = flatcc_builder_end_table(&B);
            flatcc_builder_end_buffer(&B, t);
            buf = flatcc_builder_finalize_aligned_buffer(&B, &size);
            if (!buf || !slot) printf("build-failed\n");
            else {
                uint32_t root, soff, fld, vec, len; uint16_t e0;
                memcpy(&root, buf, 4); memcpy(&soff, buf + root, 4); memcpy(&e0, buf + root - (int32_t)soff + 4, 2);
                fld = root + e0; memcpy(&vec, buf + fld, 4); vec += fld; memcpy(&len, buf + vec, 4);
                printf("outer "); h_puthex(buf + 4, 4); printf(" nested %u ", (unsigned)len); h_puthex(buf + vec + 4, len); printf("\n");
            }
            if (buf) flatcc_builder_aligned_free(buf);
            flatcc_builder_clear(&B);
        } else printf("bad-op\n");
    }
    return 0;
}
