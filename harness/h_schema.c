/* Schema compiler harness (C08, C07, C20, C06): compile a schema through the library interface and dump what the
 * compiler decided, read back from the binary schema it generates with the repo's reflection reader.
 *   compile <optbits> <hex of schema text>
 *     optbits (0 = the library defaults): 1 allow_boolean_conversion off, 2 toggle strict_enum_init, 4 toggle ascending_enum, 8 toggle bgen_qualify_names
 *   output: "fail diag=<n>"  |  "ok diag=<n> size=<bfbs bytes> | O <name> <is_struct> <minalign> <bytesize> : <field>;<field>... | E <name> <utype> <is_union> : <name>=<value>,..."
 *     field = name,id,offset,base_type,element,index,fixed_length,default_integer,default_real_bits,deprecated,required,key,optional
 */
#include "hcommon.h"
#include "flatcc/flatcc.h"
#include "flatcc/reflection/reflection_reader.h"
#include "flatcc/reflection/reflection_verifier.h"

static int ndiag; static char first_err[160];
static void on_error(void *ctx, const char *buf, size_t len) { (void)ctx;
    if (!ndiag) { size_t i, n = len < sizeof(first_err) - 1 ? len : sizeof(first_err) - 1; for (i = 0; i < n; ++i) first_err[i] = buf[i] == '\n' || buf[i] == ' ' ? '_' : buf[i]; first_err[n] = 0; }
    ++ndiag; }

static void dump(const void *bfbs)
{
    reflection_Schema_table_t S = reflection_Schema_as_root(bfbs); size_t i, j;
    reflection_Object_vec_t objs = reflection_Schema_objects(S); reflection_Enum_vec_t ens = reflection_Schema_enums(S);
    for (i = 0; i < reflection_Object_vec_len(objs); ++i) {
        reflection_Object_table_t o = reflection_Object_vec_at(objs, i); reflection_Field_vec_t fs = reflection_Object_fields(o);
        printf(" | O %s %d %d %d :", reflection_Object_name(o), reflection_Object_is_struct(o), reflection_Object_minalign(o), reflection_Object_bytesize(o));
        for (j = 0; j < reflection_Field_vec_len(fs); ++j) {
            reflection_Field_table_t f = reflection_Field_vec_at(fs, j); reflection_Type_table_t t = reflection_Field_type(f);
            double dr = reflection_Field_default_real(f); uint64_t bits; memcpy(&bits, &dr, 8);
            printf("%s%s,%u,%u,%d,%d,%d,%u,%" PRId64 ",%016" PRIx64 ",%d,%d,%d,%d", j ? ";" : " ", reflection_Field_name(f), reflection_Field_id(f), reflection_Field_offset(f),
                   reflection_Type_base_type(t), reflection_Type_element(t), reflection_Type_index(t), reflection_Type_fixed_length(t),
                   reflection_Field_default_integer(f), bits, reflection_Field_deprecated(f), reflection_Field_required(f), reflection_Field_key(f), reflection_Field_optional(f));
        }
    }
    for (i = 0; i < reflection_Enum_vec_len(ens); ++i) {
        reflection_Enum_table_t e = reflection_Enum_vec_at(ens, i); reflection_EnumVal_vec_t vs = reflection_Enum_values(e);
        printf(" | E %s %d %d :", reflection_Enum_name(e), reflection_Type_base_type(reflection_Enum_underlying_type(e)), reflection_Enum_is_union(e));
        for (j = 0; j < reflection_EnumVal_vec_len(vs); ++j)
            printf("%s%s=%" PRId64, j ? "," : " ", reflection_EnumVal_name(reflection_EnumVal_vec_at(vs, j)), reflection_EnumVal_value(reflection_EnumVal_vec_at(vs, j)));
    }
}

int main(void)
{
    char *tok[4]; h_init();
    while (h_getline()) {
        int n = h_split(tok, 4);
        if (n >= 3 && !strcmp(tok[0], "compile")) {
            unsigned ob = (unsigned)strtoul(tok[1], 0, 10); size_t len = h_hexlen(tok[2]); char *src = malloc(len + 1);
            flatcc_options_t opts; flatcc_context_t ctx; int ret; void *bfbs; size_t bsize = 0;
            h_unhex(tok[2], (uint8_t *)src); src[len] = 0;
            flatcc_init_options(&opts);
            /* defaults as flatcc_init_options sets them (the CLI's configuration) unless a bit asks otherwise */
            if (ob & 1) opts.allow_boolean_conversion = 0;
            if (ob & 2) opts.strict_enum_init = !opts.strict_enum_init;
            if (ob & 4) opts.ascending_enum = !opts.ascending_enum;
            if (ob & 8) opts.bgen_qualify_names = !opts.bgen_qualify_names;
            opts.bgen_bfbs = 1;
            ndiag = 0;
            ctx = flatcc_create_context(&opts, "h_schema", on_error, 0);
            if (!ctx) { printf("no-context\n"); free(src); continue; }
            ret = flatcc_parse_buffer(ctx, src, len);
            if (ret) { printf("fail diag=%d %s\n", ndiag, first_err); }
            else {
                bfbs = flatcc_generate_binary_schema(ctx, &bsize);
                if (!bfbs) printf("ok diag=%d nobfbs\n", ndiag);
                else {
                    int v = reflection_Schema_verify_as_root(bfbs, bsize);
                    printf("ok diag=%d size=%zu verify=%s", ndiag, bsize, v ? flatcc_verify_error_string(v) : "ok");
                    if (!v) dump(bfbs);
                    printf("\n");
                    free(bfbs);
                }
            }
            flatcc_destroy_context(ctx);
            free(src);
        } else if (n >= 4 && (!strcmp(tok[0], "lit") || !strcmp(tok[0], "enum"))) {
            /* lit <optbits> <type> <hex token>   : table T { x:<type> = <token>; }  -> ok <default as uint64> | reject
               enum <optbits> <type> <v,v,_,...>  : enum E:<type> { M0 = v, M1, ... }  -> ok v0,v1,... (as uint64) | reject */
            unsigned ob = (unsigned)strtoul(tok[1], 0, 10); char src[4096]; size_t bsize = 0; void *bfbs; int ret;
            flatcc_options_t opts; flatcc_context_t ctx;
            if (!strcmp(tok[0], "lit")) {
                char t[256]; size_t tl = h_hexlen(tok[3]); if (tl > 200) tl = 200; h_unhex(tok[3], (uint8_t *)t); t[tl] = 0;
                snprintf(src, sizeof src, "table T { x:%s = %s; }", tok[2], t);
            } else {
                char *p = tok[3], *q; int k = 0; size_t o = (size_t)snprintf(src, sizeof src, "enum E:%s {", tok[2]);
                while (*p && o < sizeof src - 64) { q = strchr(p, ','); if (q) *q = 0;
                    if (!strcmp(p, "_")) o += (size_t)snprintf(src + o, sizeof src - o, "%s M%d", k ? "," : "", k);
                    else o += (size_t)snprintf(src + o, sizeof src - o, "%s M%d = %s", k ? "," : "", k, p);
                    ++k; if (!q) break; p = q + 1; }
                snprintf(src + o, sizeof src - o, " }");
            }
            flatcc_init_options(&opts);
            opts.allow_boolean_conversion = (ob & 1) != 0; opts.bgen_bfbs = 1;
            ndiag = 0;
            ctx = flatcc_create_context(&opts, "h_schema", on_error, 0);
            ret = flatcc_parse_buffer(ctx, src, strlen(src));
            if (ret) { printf("reject\n"); }
            else if (!(bfbs = flatcc_generate_binary_schema(ctx, &bsize))) printf("nobfbs\n");
            else {
                reflection_Schema_table_t S = reflection_Schema_as_root(bfbs);
                if (!strcmp(tok[0], "lit")) {
                    reflection_Field_table_t f = reflection_Field_vec_at(reflection_Object_fields(reflection_Object_vec_at(reflection_Schema_objects(S), 0)), 0);
                    printf("ok %" PRIu64 "\n", (uint64_t)reflection_Field_default_integer(f));
                } else {
                    reflection_EnumVal_vec_t vs = reflection_Enum_values(reflection_Enum_vec_at(reflection_Schema_enums(S), 0)); size_t j;
                    printf("ok ");
                    for (j = 0; j < reflection_EnumVal_vec_len(vs); ++j) printf("%s%" PRIu64, j ? "," : "", (uint64_t)reflection_EnumVal_value(reflection_EnumVal_vec_at(vs, j)));
                    printf("\n");
                }
                free(bfbs);
            }
            flatcc_destroy_context(ctx);
        } else printf("bad-op\n");
    }
    return 0;
}
