/* Schema compiler harness (C08, C07, C20, C06): compile a schema through the library interface and dump what the
 * compiler decided, read back from the binary schema it generates with the repo's reflection reader.
 *   compile <optbits> <hex of schema text>
 *     optbits (0 = the library defaults): 1 allow_boolean_conversion off, 2 toggle strict_enum_init, 4 toggle ascending_enum, 8 toggle bgen_qualify_names
 *   output: "fail diag=<n>"  |  "ok diag=<n> size=<bfbs bytes> | O <name> <is_struct> <minalign> <bytesize> : <field>;<field>... | E <name> <utype> <is_union> : <name>=<value>,..."
 *     field = name,id,offset,base_type,element,index,fixed_length,default_integer,default_real_bits,deprecated,required,key,optional
 */
#include "hcommon.h"
#include "flatcc/flatcc.h"
#include "flatcc/reflection/reflection_reader.h"
#include "flatcc/reflection/reflection_verifier.h"

static int ndiag; static char first_err[160];
static void on_error(void *ctx, const char *buf, size_t len) { (void)ctx;
    if (!ndiag) { size_t i, n = len < sizeof(first_err) - 1 ? len : sizeof(first_err) - 1; for (i = 0; i < n; ++i) first_err[i] = buf[i] == '\n' || buf[i] == ' ' ? '_' : buf[i]; first_err[n] = 0; }
    ++ndiag; }

static void dump(const void *bfbs)
{
    reflection_Schema_table_t S = reflection_Schema_as_root(bfbs); size_t i, j;
    reflection_Object_vec_t objs = reflection_Schema_objects(S); reflection_Enum_vec_t ens = reflection_Schema_enums(S);
    for (i = 0; i < reflection_Object_vec_len(objs); ++i) {
        reflection_Object_table_t o = reflection_Object_vec_at(objs, i); reflection_Field_vec_t fs = reflection_Object_fields(o);
        printf(" | O %s %d %d %d :", reflection_Object_name(o), reflection_Object_is_struct(o), reflection_Object_minalign(o), reflection_Object_bytesize(o));
        for (j = 0; j < reflection_Field_vec_len(fs); ++j) {
            reflection_Field_table_t f = reflection_Field_vec_at(fs, j); reflection_Type_table_t t = reflection_Field_type(f);
            double dr = reflection_Field_default_real(f); uint64_t bits; memcpy(&bits, &dr, 8);
            printf("%s%s,%u,%u,%d,%d,%d,%u,%" PRId64 ",%016" PRIx64 ",%d,%d,%d,%d", j ? ";" : " ", reflection_Field_name(f), reflection_Field_id(f), reflection_Field_offset(f),
                   reflection_Type_base_type(t), reflection_Type_element(t), reflection_Type_index(t), reflection_Type_fixed_length(t),
                   reflection_Field_default_integer(f), bits, reflection_Field_deprecated(f), reflection_Field_required(f), reflection_Field_key(f), reflection_Field_optional(f));
        }
    }
    for (i = 0; i < reflection_Enum_vec_len(ens); ++i) {
        reflection_Enum_table_t e = reflection_Enum_vec_at(ens, i); reflection_EnumVal_vec_t vs = reflection_Enum_values(e);
        printf(" | E %s %d %d :", reflection_Enum_name(e), reflection_Type_base_type(reflection_Enum_underlying_type(e)), reflection_Enum_is_union(e));
        for (j = 0; j < reflection_EnumVal_vec_len(vs); ++j)
            printf("%s%s=%" PRId64, j ? "," : " ", reflection_EnumVal_name(reflection_EnumVal_vec_at(vs, j)), reflection_EnumVal_value(reflection_EnumVal_vec_at(vs, j)));
    }
}

int main(void)
{
    char *tok[4]; h_init();
    while (h_getline()) {
        int n = h_split(tok, 4);
        if (n >= 3 && !strcmp(tok[0], "compile")) {
            unsigned ob = (unsigned)strtoul(tok[1], 0, 10); size_t len = h_hexlen(tok[2]); char *src = malloc(len + 1);
            flatcc_options_t opts; flatcc_context_t ctx; int ret; void *bfbs; size_t bsize = 0;
            h_unhex(tok[2], (uint8_t *)src); src[len] = 0;
            flatcc_init_options(&opts);
            /* defaults as flatcc_init_options sets them (the CLI's configuration) unless a bit asks otherwise */
            if (ob & 1) opts.allow_boolean_conversion = 0;
            if (ob & 2) opts.strict_enum_init = !opts.strict_enum_init;
            if (ob & 4) opts.ascending_enum = !opts.ascending_enum;
            if (ob & 8) opts.bgen_qualify_names = !opts.bgen_qualify_names;
            opts.bgen_bfbs = 1;
            ndiag = 0;
            ctx = flatcc_create_context(&opts, "h_schema", on_error, 0);
            if (!ctx) { printf("no-context\n"); free(src); continue; }
            ret = flatcc_parse_buffer(ctx, src, len);
            if (ret) { printf("fail diag=%d %s\n", ndiag, first_err); }
            else {
                bfbs = flatcc_generate_binary_schema(ctx, &bsize);
                if (!bfbs) printf("ok diag=%d nobfbs\n", ndiag);
                else {
                    int v = reflection_Schema_verify_as_root(bfbs, bsize);
                    printf("ok diag=%d size=%zu verify=%s", ndiag, bsize, v ? flatcc_verify_error_string(v) : "ok");
                    if (!v) dump(bfbs);
                    printf("\n");
                    free(bfbs);
                }
            }
            flatcc_destroy_context(ctx);
            free(src);
        } else if (n >= 3 && !strcmp(tok[0], "bfbs")) {
            /* bfbs <optbits> <hex schema>: both in-memory generation paths, buffer sizes, length prefix, sorted lookup.
               optbits as for compile, plus 16 = bgen_length_prefix.
               -> "fail diag=n" | "ok size=<n> prefix=<0|1:value> tobuf_exact=<rc> tobuf_larger=<rc>:<same|DIFF> tobuf_small=<rc> verify=<..> root=<name|-> find=<ok|FAIL:what> sorted=<ok|FAIL:what>" */
            unsigned ob = (unsigned)strtoul(tok[1], 0, 10); size_t len = h_hexlen(tok[2]); char *src = malloc(len + 1);
            flatcc_options_t opts; flatcc_context_t ctx; int ret; uint8_t *bfbs; size_t bsize = 0;
            h_unhex(tok[2], (uint8_t *)src); src[len] = 0;
            flatcc_init_options(&opts);
            if (ob & 2) opts.strict_enum_init = !opts.strict_enum_init;
            if (ob & 8) opts.bgen_qualify_names = !opts.bgen_qualify_names;
            if (ob & 16) opts.bgen_length_prefix = 1;
            opts.bgen_bfbs = 1;
            ndiag = 0;
            ctx = flatcc_create_context(&opts, "h_schema", on_error, 0);
            ret = ctx ? flatcc_parse_buffer(ctx, src, len) : -1;
            if (ret) { printf("fail diag=%d\n", ndiag); }
            else if (!(bfbs = flatcc_generate_binary_schema(ctx, &bsize))) printf("ok nobfbs\n");
            else {
                size_t off = (ob & 16) ? 4 : 0, i, j; uint32_t pv = 0; int r1, r2, r3, v; const char *bad = 0, *badsort = 0; static char what[200];
                uint8_t *b1 = malloc(bsize + 64), *b2 = malloc(bsize + 64), *b3 = malloc(bsize ? bsize : 1);
                reflection_Schema_table_t S; reflection_Object_vec_t objs; reflection_Enum_vec_t ens;
                memset(b2, 0xa5, bsize + 64);
                r1 = flatcc_generate_binary_schema_to_buffer(ctx, b1, bsize);
                r2 = flatcc_generate_binary_schema_to_buffer(ctx, b2, bsize + 64);
                r3 = bsize > 1 ? flatcc_generate_binary_schema_to_buffer(ctx, b3, bsize - 1) : -1;
                if (off) memcpy(&pv, bfbs, 4);
                printf("ok size=%zu prefix=%d:%u tobuf_exact=%d:%s tobuf_larger=%d:%s tobuf_small=%d", bsize, (int)(off != 0), (unsigned)pv,
                       r1, r1 == (int)bsize && !memcmp(b1, bfbs, bsize) ? "same" : "DIFF", r2, r2 == (int)bsize && !memcmp(b2, bfbs, bsize) ? "same" : "DIFF", r3);
                v = off ? flatcc_verify_table_as_root_with_size(bfbs, bsize, reflection_Schema_file_identifier, reflection_Schema_verify_table) : reflection_Schema_verify_as_root(bfbs, bsize);
                printf(" verify=%s", v ? flatcc_verify_error_string(v) : "ok");
                if (!v) {
                    S = reflection_Schema_as_root(bfbs + off); objs = reflection_Schema_objects(S); ens = reflection_Schema_enums(S);
                    printf(" root=%s", reflection_Schema_root_table(S) ? reflection_Object_name(reflection_Schema_root_table(S)) : "-");
                    for (i = 0; i < reflection_Object_vec_len(objs) && !bad; ++i) {
                        reflection_Object_table_t o = reflection_Object_vec_at(objs, i); reflection_Field_vec_t fs = reflection_Object_fields(o);
                        size_t k = reflection_Object_vec_find(objs, reflection_Object_name(o));
                        if (k == flatbuffers_not_found || strcmp(reflection_Object_name(reflection_Object_vec_at(objs, k)), reflection_Object_name(o))) { snprintf(what, sizeof what, "object:%s", reflection_Object_name(o)); bad = what; }
                        if (i && strcmp(reflection_Object_name(reflection_Object_vec_at(objs, i - 1)), reflection_Object_name(o)) >= 0) { snprintf(what, sizeof what, "objects-at-%zu", i); badsort = what; }
                        for (j = 0; j < reflection_Field_vec_len(fs) && !bad; ++j) {
                            reflection_Field_table_t f = reflection_Field_vec_at(fs, j);
                            size_t q = reflection_Field_vec_find(fs, reflection_Field_name(f));
                            if (q == flatbuffers_not_found || strcmp(reflection_Field_name(reflection_Field_vec_at(fs, q)), reflection_Field_name(f))) { snprintf(what, sizeof what, "field:%s.%s", reflection_Object_name(o), reflection_Field_name(f)); bad = what; }
                            if (j && strcmp(reflection_Field_name(reflection_Field_vec_at(fs, j - 1)), reflection_Field_name(f)) >= 0) { snprintf(what, sizeof what, "fields-of-%s-at-%zu", reflection_Object_name(o), j); badsort = what; }
                        }
                    }
                    for (i = 0; i < reflection_Enum_vec_len(ens) && !bad; ++i) {
                        reflection_Enum_table_t e = reflection_Enum_vec_at(ens, i); reflection_EnumVal_vec_t vs = reflection_Enum_values(e);
                        size_t k = reflection_Enum_vec_find(ens, reflection_Enum_name(e));
                        if (k == flatbuffers_not_found || strcmp(reflection_Enum_name(reflection_Enum_vec_at(ens, k)), reflection_Enum_name(e))) { snprintf(what, sizeof what, "enum:%s", reflection_Enum_name(e)); bad = what; }
                        for (j = 0; j < reflection_EnumVal_vec_len(vs) && !bad; ++j) {
                            int64_t val = reflection_EnumVal_value(reflection_EnumVal_vec_at(vs, j));
                            size_t q = reflection_EnumVal_vec_find(vs, val);
                            if (q == flatbuffers_not_found || reflection_EnumVal_value(reflection_EnumVal_vec_at(vs, q)) != val) { snprintf(what, sizeof what, "enumval:%s=%lld", reflection_Enum_name(e), (long long)val); bad = what; }
                        }
                    }
                    printf(" find=%s%s sorted=%s%s", bad ? "FAIL:" : "ok", bad ? bad : "", badsort ? "FAIL:" : "ok", badsort ? badsort : "");
                    dump(bfbs + off);
                }
                printf("\n");
                free(b1); free(b2); free(b3); free(bfbs);
            }
            if (ctx) flatcc_destroy_context(ctx);
            free(src);
        } else if (n >= 3 && !strcmp(tok[0], "falign")) {
            /* falign <natural alignment 1|2|4|8> <token>: struct S (force_align: <token>) { x:<scalar of that size>; }
               -> ok <alignment of S as the binary schema reports it> <size> | reject */
            char src[512]; size_t bsize = 0; void *bfbs; int ret; unsigned long nat = strtoul(tok[1], 0, 10);
            flatcc_options_t opts; flatcc_context_t ctx;
            snprintf(src, sizeof src, "struct S (force_align: %.200s) { x:%s; } table T { s:S; }", tok[2],
                     nat == 1 ? "ubyte" : nat == 2 ? "ushort" : nat == 4 ? "uint" : "ulong");
            flatcc_init_options(&opts); opts.bgen_bfbs = 1; ndiag = 0;
            ctx = flatcc_create_context(&opts, "h_schema", on_error, 0);
            ret = flatcc_parse_buffer(ctx, src, strlen(src));
            if (ret) printf("reject\n");
            else if (!(bfbs = flatcc_generate_binary_schema(ctx, &bsize))) printf("nobfbs\n");
            else {
                reflection_Schema_table_t S = reflection_Schema_as_root(bfbs); reflection_Object_vec_t objs = reflection_Schema_objects(S);
                size_t k = reflection_Object_vec_find(objs, "S");
                if (k == flatbuffers_not_found) printf("nostruct\n");
                else printf("ok %d %d\n", reflection_Object_minalign(reflection_Object_vec_at(objs, k)), reflection_Object_bytesize(reflection_Object_vec_at(objs, k)));
                free(bfbs);
            }
            flatcc_destroy_context(ctx);
        } else if (n >= 4 && (!strcmp(tok[0], "lit") || !strcmp(tok[0], "enum"))) {
            /* lit <optbits> <type> <hex token>   : table T { x:<type> = <token>; }  -> ok <default as uint64> | reject
               enum <optbits> <type> <v,v,_,...>  : enum E:<type> { M0 = v, M1, ... }  -> ok v0,v1,... (as uint64) | reject
                                                    optbits & 2: (bit_flags), the v are bit positions */
            unsigned ob = (unsigned)strtoul(tok[1], 0, 10); char src[4096]; size_t bsize = 0; void *bfbs; int ret;
            flatcc_options_t opts; flatcc_context_t ctx;
            if (!strcmp(tok[0], "lit")) {
                char t[256]; size_t tl = h_hexlen(tok[3]); if (tl > 200) tl = 200; h_unhex(tok[3], (uint8_t *)t); t[tl] = 0;
                snprintf(src, sizeof src, "table T { x:%s = %s; }", tok[2], t);
            } else {
                char *p = tok[3], *q; int k = 0; size_t o = (size_t)snprintf(src, sizeof src, "enum E:%s %s{", tok[2], (ob & 2) ? "(bit_flags) " : "");
                while (*p && o < sizeof src - 64) { q = strchr(p, ','); if (q) *q = 0;
                    if (!strcmp(p, "_")) o += (size_t)snprintf(src + o, sizeof src - o, "%s M%d", k ? "," : "", k);
                    else o += (size_t)snprintf(src + o, sizeof src - o, "%s M%d = %s", k ? "," : "", k, p);
                    ++k; if (!q) break; p = q + 1; }
                snprintf(src + o, sizeof src - o, " }");
            }
            flatcc_init_options(&opts);
            opts.allow_boolean_conversion = (ob & 1) != 0; opts.bgen_bfbs = 1;
            ndiag = 0;
            ctx = flatcc_create_context(&opts, "h_schema", on_error, 0);
            ret = flatcc_parse_buffer(ctx, src, strlen(src));
            if (ret) { printf("reject\n"); }
            else if (!(bfbs = flatcc_generate_binary_schema(ctx, &bsize))) printf("nobfbs\n");
            else {
                reflection_Schema_table_t S = reflection_Schema_as_root(bfbs);
                if (!strcmp(tok[0], "lit")) {
                    reflection_Field_table_t f = reflection_Field_vec_at(reflection_Object_fields(reflection_Object_vec_at(reflection_Schema_objects(S), 0)), 0);
                    if (!strcmp(tok[2], "float") || !strcmp(tok[2], "double")) {    /* real default: the bits of the double the schema records */
                        double dr = reflection_Field_default_real(f); uint64_t bits; memcpy(&bits, &dr, 8);
                        printf("ok r%016" PRIx64 "\n", bits);
                    } else
                    printf("ok %" PRIu64 "\n", (uint64_t)reflection_Field_default_integer(f));
                } else {
                    reflection_EnumVal_vec_t vs = reflection_Enum_values(reflection_Enum_vec_at(reflection_Schema_enums(S), 0)); size_t j;
                    printf("ok ");
                    for (j = 0; j < reflection_EnumVal_vec_len(vs); ++j) printf("%s%" PRIu64, j ? "," : "", (uint64_t)reflection_EnumVal_value(reflection_EnumVal_vec_at(vs, j)));
                    printf("\n");
                }
                free(bfbs);
            }
            flatcc_destroy_context(ctx);
        } else printf("bad-op\n");
    }
    return 0;
}
