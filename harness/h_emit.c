/* C12 correspondence harness for the default emitter (src/runtime/emitter.c).
 * emit <op,op,...>   f<n1+n2+...>  front emit with these iov piece sizes
 *                    b<n1+n2+...>  back emit
 *                    c             check: size, direct buffer, copy_buffer (content hash, returned pointer)
 *                    k<n>          copy_buffer into a buffer of n bytes (may be too small)
 *                    R reset, C clear
 * data bytes are a deterministic function of a running counter, the same on the model side.
 */
#include "hcommon.h"
#include "flatcc/flatcc_emitter.h"

static unsigned long ctr;
static uint8_t nextbyte(void) { uint8_t b = (uint8_t)((ctr * 131u + 7u) % 251u); ++ctr; return b; }
static uint32_t fnv(const uint8_t *p, size_t n) { uint32_t h = 2166136261u; while (n--) { h ^= *p++; h *= 16777619u; } return h; }

int main(void)
{
    char *tok[4]; h_init();
    while (h_getline()) {
        int n = h_split(tok, 4); char *p, *q; flatcc_emitter_t E; int first = 1;
        flatbuffers_soffset_t front = 0, back = 0;
        if (n < 2 || strcmp(tok[0], "emit")) { printf("bad-op\n"); continue; }
        flatcc_emitter_init(&E); ctr = 0;
        p = tok[1];
        while (*p) {
            q = strchr(p, ','); if (q) *q = 0;
            if (!first) putchar(' ');
            first = 0;
            if (*p == 'f' || *p == 'b') {
                flatcc_iovec_t iov[16]; int cnt = 0, ret; size_t len = 0; char *s = p + 1; uint8_t *data, *d;
                size_t sizes[16];
                while (*s && cnt < 16) { sizes[cnt] = (size_t)strtoul(s, &s, 10); len += sizes[cnt]; ++cnt; if (*s == '+') ++s; }
                data = malloc(len ? len : 1);
                /* front data is generated so that the stream in address order is independent of the chunking:
                   bytes are numbered in emit order within the call */
                for (d = data; d < data + len; ++d) *d = nextbyte();
                d = data;
                { int i; for (i = 0; i < cnt; ++i) { iov[i].iov_base = d; iov[i].iov_len = sizes[i]; d += sizes[i]; } }
                if (*p == 'f') { front -= (flatbuffers_soffset_t)len; ret = flatcc_emitter(&E, iov, cnt, front, len); }
                else { ret = flatcc_emitter(&E, iov, cnt, back, len); back += (flatbuffers_soffset_t)len; }
                printf("%d", ret);
                free(data);
            } else if (*p == 'c' || *p == 'k') {
                size_t size = flatcc_emitter_get_buffer_size(&E), dsize = 12345, bufsize = *p == 'k' ? (size_t)strtoul(p + 1, 0, 10) : size;
                void *direct = flatcc_emitter_get_direct_buffer(&E, &dsize);
                uint8_t *buf = malloc(bufsize + 1), *ret;
                buf[bufsize] = 0xA5;
                ret = flatcc_emitter_copy_buffer(&E, buf, bufsize);
                printf("size=%zu direct=%s", size, direct ? "y" : "n");
                if (direct) printf(":%zu:%08x", dsize, fnv(direct, dsize));
                if (!ret) printf(" copy=null");
                else printf(" copy=%s:%08x", ret == buf ? "ok" : "MOVED", fnv(buf, size));
                if (buf[bufsize] != 0xA5) printf(" OVERRUN");
                free(buf);
            } else if (*p == 'R') { flatcc_emitter_reset(&E); front = back = 0; printf("R"); }
            else if (*p == 'C') { flatcc_emitter_clear(&E); front = back = 0; printf("C"); }
            else printf("?");
            if (!q) break;
            p = q + 1;
        }
        printf(" cap=%zu\n", E.capacity);
        flatcc_emitter_clear(&E);
    }
    return 0;
}
