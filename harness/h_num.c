/* C19 correspondence harness: pprintint.h printers, flatcc_json_parser_integer + coerce_*. */
#include "hcommon.h"
#include "flatcc/flatcc_json_parser.h"
#include "flatcc/portable/pprintint.h"
#include "flatcc/portable/pprintfp.h"
#include "flatcc/portable/pparsefp.h"
#include <math.h>

#define COERCE(T, CT, FMT) do { CT v = 0; \
    const char *r = flatcc_json_parser_coerce_##T(&ctx, q, end, sign, value, &v); \
    if (ctx.error) printf("range\n"); else { (void)r; printf("ok " FMT " %ld\n", v, (long)(q - buf)); } } while (0)

int main(void)
{
    char *tok[8];
    h_init();
    while (h_getline()) {
        int n = h_split(tok, 8);
        if (n >= 4 && !strcmp(tok[0], "num") && !strcmp(tok[1], "pu")) {
            char out[64]; int bits = atoi(tok[2]); uint64_t v = strtoull(tok[3], 0, 10); int k;
            memset(out, 'X', sizeof(out));
            k = bits == 8 ? print_uint8((uint8_t)v, out) : bits == 16 ? print_uint16((uint16_t)v, out) :
                bits == 32 ? print_uint32((uint32_t)v, out) : print_uint64(v, out);
            if (out[k] != 0) { printf("unterminated\n"); continue; }
            printf("%s\n", out);
        } else if (n >= 4 && !strcmp(tok[0], "num") && !strcmp(tok[1], "pi")) {
            char out[64]; int bits = atoi(tok[2]); int64_t v = strtoll(tok[3], 0, 10); int k;
            memset(out, 'X', sizeof(out));
            k = bits == 8 ? print_int8((int8_t)v, out) : bits == 16 ? print_int16((int16_t)v, out) :
                bits == 32 ? print_int32((int32_t)v, out) : print_int64(v, out);
            if (out[k] != 0) { printf("unterminated\n"); continue; }
            printf("%s\n", out);
        } else if (n >= 4 && !strcmp(tok[0], "num") && !strcmp(tok[1], "ji")) {
            size_t len = h_hexlen(tok[3]);
            /* exact-size heap copy: ASan flags any read at or past `end` */
            char *buf = malloc(len ? len : 1);
            const char *end, *q; int sign = 0; uint64_t value = 0;
            flatcc_json_parser_t ctx; const char *ty = tok[2];
            h_unhex(tok[3], (uint8_t *)buf);
            end = buf + len;
            memset(&ctx, 0, sizeof(ctx));
            ctx.start = buf; ctx.end = end;
            q = flatcc_json_parser_integer(&ctx, buf, end, &sign, &value);
            if (ctx.error == flatcc_json_parser_error_float_unexpected) printf("float\n");
            else if (ctx.error) printf("range\n");
            else if (q == buf) printf("nomatch\n");
            else if (!strcmp(ty, "u8")) COERCE(uint8, uint8_t, "%u");
            else if (!strcmp(ty, "u16")) COERCE(uint16, uint16_t, "%u");
            else if (!strcmp(ty, "u32")) COERCE(uint32, uint32_t, "%u");
            else if (!strcmp(ty, "u64")) COERCE(uint64, uint64_t, "%" PRIu64);
            else if (!strcmp(ty, "i8")) COERCE(int8, int8_t, "%d");
            else if (!strcmp(ty, "i16")) COERCE(int16, int16_t, "%d");
            else if (!strcmp(ty, "i32")) COERCE(int32, int32_t, "%d");
            else if (!strcmp(ty, "i64")) COERCE(int64, int64_t, "%" PRId64);
            else if (!strcmp(ty, "bool")) COERCE(bool, uint8_t, "%u");
            else printf("bad-op\n");
            free(buf);
        } else if (n >= 4 && !strcmp(tok[0], "num") && !strcmp(tok[1], "fl32")) {
            /* print → parse of one float32 bit pattern: "<text> <bits-after>" */
            uint32_t b = (uint32_t)strtoul(tok[3], 0, 16), b2; float f, g = 0; char out[64];
            const char *q; int k;
            memcpy(&f, &b, 4);
            k = print_float(f, out); out[k] = 0;
            q = parse_float(out, (size_t)k, &g);
            memcpy(&b2, &g, 4);
            printf("%s %08x %d\n", out, b2, q == out + k);
        } else if (n >= 4 && !strcmp(tok[0], "num") && !strcmp(tok[1], "fl64")) {
            uint64_t b = strtoull(tok[3], 0, 16), b2; double f, g = 0; char out[64];
            const char *q; int k;
            memcpy(&f, &b, 8);
            k = print_double(f, out); out[k] = 0;
            q = parse_double(out, (size_t)k, &g);
            memcpy(&b2, &g, 8);
            printf("%s %016" PRIx64 " %d\n", out, b2, q == out + k);
        } else if (n >= 5 && !strcmp(tok[0], "num") && !strcmp(tok[1], "flrange32")) {
            /* all finite float32 patterns in [start, start+count): count of non-exact round trips */
            uint64_t start = strtoull(tok[3], 0, 10), cnt = strtoull(tok[4], 0, 10), i, bad = 0, tested = 0;
            uint32_t first = 0;
            for (i = start; i < start + cnt; ++i) {
                uint32_t b = (uint32_t)i, b2; float f, g = 0; char out[64]; int k; const char *q;
                if ((b & 0x7f800000u) == 0x7f800000u) continue; /* inf / nan excluded by the property */
                memcpy(&f, &b, 4);
                k = print_float(f, out); out[k] = 0;
                q = parse_float(out, (size_t)k, &g);
                memcpy(&b2, &g, 4);
                ++tested;
                if (b2 != b || q != out + k) { if (!bad) first = b; ++bad; }
            }
            printf("tested %" PRIu64 " bad %" PRIu64 " first %08x\n", tested, bad, first);
        } else printf("bad-op\n");
    }
    return 0;
}
