/* Correspondence harness for the chunk loop of src/runtime/json_printer.c: print_uint8_vector_base64_object
 * (a static function: the source file is included). The flush callback is the environment: it collects the text
 * and decides how much room (pflush - p) the next loop iteration sees.
 *   b64 print <mode> <r0> <r1,r2,...|-> <hex>  -> <hex of everything printed (quotes included)> <bytes flushed by each flush call, then what is left>
 * r0 = room right after the opening quote; r1.. = room after the 1st, 2nd, ... flush; afterwards BIG.
 * The buffer is an exact-size heap block of (largest room + 1 + FLATCC_JSON_PRINT_RESERVE) bytes, the vector an
 * exact-size block: ASan reports writes past the reserve and reads past the data.
 * Build: gcc -I/repo/include h_b64print.c -o h_b64print   (-fsanitize=address -g) */
#include "../src/runtime/json_printer.c"   /* resolved through -I <repo>/include */
#include <stdio.h>

#define BIG 256
static uint8_t *acc; static size_t acc_len, acc_cap;
static size_t sched[64]; static int nsched, isched;
static size_t flushed[256]; static int nflush;

static void acc_add(const char *p, size_t n)
{
    if (acc_len + n > acc_cap) { acc_cap = (acc_len + n) * 2 + 64; acc = realloc(acc, acc_cap); }
    memcpy(acc + acc_len, p, n); acc_len += n;
}
static void h_flush(flatcc_json_printer_t *ctx, int all)
{
    size_t room = isched < nsched ? sched[isched++] : BIG;
    (void)all;
    if (nflush < 255) flushed[nflush++] = (size_t)(ctx->p - ctx->buf);
    acc_add(ctx->buf, (size_t)(ctx->p - ctx->buf));
    ctx->p = ctx->buf;
    ctx->pflush = ctx->buf + room;
}
static int hexv(int c) { return c <= '9' ? c - '0' : (c | 0x20) - 'a' + 10; }

int main(void)
{
    char *line = 0; size_t cap = 0; ssize_t r;
    setvbuf(stdout, 0, _IOLBF, 0);
    while ((r = getline(&line, &cap, stdin)) >= 0) {
        char *tok[8]; int n = 0; char *p = line;
        while (r > 0 && (line[r - 1] == '\n' || line[r - 1] == '\r')) line[--r] = 0;
        while (n < 8) { tok[n++] = p; p = strchr(p, ' '); if (!p) break; *p++ = 0; }
        if (n >= 6 && !strcmp(tok[0], "b64") && !strcmp(tok[1], "print")) {
            int mode = atoi(tok[2]); size_t r0 = (size_t)strtoull(tok[3], 0, 10), maxroom = BIG, len, i;
            flatcc_json_printer_t ctx; uint8_t *vec;
            nsched = 0; isched = 0; nflush = 0; acc_len = 0;
            if (strcmp(tok[4], "-")) {
                char *q = tok[4];
                while (nsched < 64) { sched[nsched++] = (size_t)strtoull(q, &q, 10); if (*q != ',') break; ++q; }
            }
            if (r0 + 1 > maxroom) maxroom = r0 + 1;
            for (i = 0; i < (size_t)nsched; ++i) if (sched[i] > maxroom) maxroom = sched[i];
            len = strcmp(tok[5], "-") == 0 ? 0 : strlen(tok[5]) / 2;
            vec = malloc(4 + len);
            vec[0] = (uint8_t)len; vec[1] = (uint8_t)(len >> 8); vec[2] = (uint8_t)(len >> 16); vec[3] = (uint8_t)(len >> 24);
            for (i = 0; i < len; ++i) vec[4 + i] = (uint8_t)(hexv(tok[5][2 * i]) * 16 + hexv(tok[5][2 * i + 1]));
            memset(&ctx, 0, sizeof(ctx));
            ctx.size = maxroom + 1 + FLATCC_JSON_PRINT_RESERVE;
            ctx.buf = malloc(ctx.size);
            ctx.flush_size = ctx.size - FLATCC_JSON_PRINT_RESERVE;
            ctx.p = ctx.buf;
            ctx.pflush = ctx.buf + 1 + r0;
            ctx.flush = h_flush;
            print_uint8_vector_base64_object(&ctx, vec, mode);
            acc_add(ctx.buf, (size_t)(ctx.p - ctx.buf));
            for (i = 0; i < acc_len; ++i) printf("%02x", acc[i]);
            flushed[nflush++] = (size_t)(ctx.p - ctx.buf);
            for (i = 0; i < (size_t)nflush; ++i) printf("%c%zu", i ? ',' : ' ', flushed[i]);
            printf("\n");
            free(ctx.buf); free(vec);
        } else printf("bad-op\n");
    }
    free(line); free(acc);
    return 0;
}
