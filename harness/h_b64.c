/* Correspondence harness for include/flatcc/portable/pbase64.h (same line protocol as the Lean driver `fmodel`):
 *   b64 enc <mode> <hex>            -> <ret> <hex of encoded text> <src_len on return>
 *   b64 dec <mode> <hex>            -> <ret> <hex of decoded bytes> <src_len on return>      (dst_len = 0: unlimited)
 *   b64 decl <mode> <dstlen> <hex>  -> same, with *dst_len = dstlen on entry
 *   b64 size <len> <mode>           -> <base64_encoded_size(len, mode)> <base64_decoded_size(len)>
 *   b64 parse <urlsafe> <hex>       -> ok <hex> | fail     (the decode protocol of flatcc_json_parser_build_uint8_vector_base64)
 * "-" is the empty byte string. Source and destination are exact-size heap blocks: under -fsanitize=address any
 * read past the source or write past base64_decoded_size(len) / base64_encoded_size(len, mode) is reported.
 * Build: gcc -I/repo/include h_b64.c -o h_b64   (add -fsanitize=address -g for the overrun check) */
#include <stdio.h>
#include <stdlib.h>
#include <string.h>
#include <stdint.h>
#include "flatcc/portable/pbase64.h"

static int hexv(int c) { return c <= '9' ? c - '0' : (c | 0x20) - 'a' + 10; }
static size_t hexlen(const char *s) { return strcmp(s, "-") == 0 ? 0 : strlen(s) / 2; }
/* exact-size copy (malloc(0) is a valid zero-size block: ASan flags every access to it) */
static uint8_t *unhex(const char *s, size_t *n)
{
    size_t i; uint8_t *p;
    *n = hexlen(s);
    p = malloc(*n);
    for (i = 0; i < *n; ++i) p[i] = (uint8_t)(hexv(s[2 * i]) * 16 + hexv(s[2 * i + 1]));
    return p;
}
static void puthex(const uint8_t *p, size_t n)
{
    size_t i;
    if (n == 0) { putchar('-'); return; }
    for (i = 0; i < n; ++i) printf("%02x", p[i]);
}
static int split(char *line, char **tok, int max)
{
    int n = 0; char *p = line;
    while (n < max) { tok[n++] = p; p = strchr(p, ' '); if (!p) break; *p++ = 0; }
    return n;
}

int main(void)
{
    char *line = 0, *tok[8]; size_t cap = 0; ssize_t r;
    setvbuf(stdout, 0, _IOLBF, 0);
    while ((r = getline(&line, &cap, stdin)) >= 0) {
        int n;
        while (r > 0 && (line[r - 1] == '\n' || line[r - 1] == '\r')) line[--r] = 0;
        n = split(line, tok, 8);
        if (n >= 4 && !strcmp(tok[0], "b64") && !strcmp(tok[1], "enc")) {
            int mode = atoi(tok[2]), ret; size_t len, src_len, cap_dst; uint8_t *src = unhex(tok[3], &len), *dst;
            cap_dst = base64_encoded_size(len, mode);
            dst = malloc(cap_dst);
            src_len = len;
            ret = base64_encode(dst, src, 0, &src_len, mode);
            /* the written length is not reported without dst_len: repeat with it to learn it (same writes) */
            { size_t dl = 0, sl = len; int ret2 = base64_encode(dst, src, &dl, &sl, mode);
              if (ret2 != ret || sl != src_len) { printf("enc-inconsistent\n"); free(src); free(dst); continue; }
              printf("%d ", ret); puthex(dst, dl); printf(" %zu\n", src_len); }
            free(src); free(dst);
        } else if (n >= 4 && !strcmp(tok[0], "b64") && (!strcmp(tok[1], "dec") || !strcmp(tok[1], "decl"))) {
            int lim = !strcmp(tok[1], "decl");
            int mode = atoi(tok[2]), ret; size_t len, src_len, dst_len, cap_dst;
            uint8_t *src, *dst;
            if (lim && n < 5) { printf("bad-op\n"); continue; }
            src = unhex(tok[lim ? 4 : 3], &len);
            dst_len = lim ? (size_t)strtoull(tok[3], 0, 10) : 0;
            cap_dst = base64_decoded_size(len);
            if (dst_len > 0 && dst_len < cap_dst) cap_dst = dst_len;
            dst = malloc(cap_dst);
            src_len = len;
            ret = base64_decode(dst, src, &dst_len, &src_len, mode);
            if (dst_len > cap_dst) { printf("dst-overrun %zu > %zu\n", dst_len, cap_dst); free(src); free(dst); continue; }
            printf("%d ", ret); puthex(dst, dst_len); printf(" %zu\n", src_len);
            free(src); free(dst);
        } else if (n >= 4 && !strcmp(tok[0], "b64") && !strcmp(tok[1], "size")) {
            size_t len = (size_t)strtoull(tok[2], 0, 10); int mode = atoi(tok[3]);
            printf("%zu %zu\n", base64_encoded_size(len, mode), base64_decoded_size(len));
        } else if (n >= 4 && !strcmp(tok[0], "b64") && !strcmp(tok[1], "parse")) {
            /* the statements of flatcc_json_parser_build_uint8_vector_base64 between string_part and end_vector,
               with malloc in place of flatcc_builder_extend_vector */
            int urlsafe = atoi(tok[2]), mode, ret; size_t len, max_len, decoded_len, src_len; uint8_t *src = unhex(tok[3], &len), *pval;
            mode = urlsafe ? base64_mode_url : base64_mode_rfc4648;
            max_len = base64_decoded_size(len);
            pval = malloc(max_len);
            src_len = len;
            decoded_len = max_len;
            if ((ret = base64_decode(pval, src, &decoded_len, &src_len, mode))) printf("fail\n");
            else if (src_len != len) printf("fail\n");
            else { printf("ok "); puthex(pval, decoded_len); printf("\n"); }
            free(src); free(pval);
        } else printf("bad-op\n");
    }
    free(line);
    return 0;
}
