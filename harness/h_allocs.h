/* Force-included when the runtime is built for C13's macro-level fault injection:
 * -DFLATCC_ALLOC=h_malloc ... route every allocation of the runtime (builder, emitter pages, refmap, printer)
 * through counting / failing wrappers defined in the harness. */
#ifndef H_ALLOCS_H
#define H_ALLOCS_H
#include <stddef.h>
void *h_malloc(size_t n);
void *h_calloc(size_t nm, size_t n);
void *h_realloc(void *p, size_t n);
void h_free(void *p);
#endif
