/* C11 output-layer harness: drives json_printer.c's print / flush machinery through its public API.
 * pr <mode> <events>    mode: fixed:<size> | dyn:<size> | file
 *   events (comma separated): r<n> n raw chars (flatcc_json_printer_char), w<n> checked write of n bytes,
 *   i<n> indent by n (level n, indent 1), p flush_partial, F flush
 * output: err=<0|1> total=<n> len=<n> text=<fnv hash | ->
 */
#include "hcommon.h"
#include "flatcc/flatcc_json_printer.h"

static unsigned long ctr;
static uint32_t fnv(const uint8_t *p, size_t n) { uint32_t h = 2166136261u; while (n--) { h ^= *p++; h *= 16777619u; } return h; }

int main(void)
{
    char *tok[4]; h_init();
    while (h_getline()) {
        int n = h_split(tok, 4); flatcc_json_printer_t pr; char *p, *q; char *fixed = 0; size_t fsize = 0; FILE *fp = 0;
        int mode; size_t len = 0; char *text = 0; int err;
        if (n < 3 || strcmp(tok[0], "pr")) { printf("bad-op\n"); continue; }
        ctr = 0;
        if (!strncmp(tok[1], "fixed:", 6)) { mode = 1; fsize = (size_t)strtoul(tok[1] + 6, 0, 10); fixed = malloc(fsize + 8); memcpy(fixed + fsize, "CANARY!!", 8);
            if (flatcc_json_printer_init_buffer(&pr, fixed, fsize)) { printf("init-failed\n"); free(fixed); continue; } }
        else if (!strncmp(tok[1], "dyn:", 4)) { mode = 2; flatcc_json_printer_init_dynamic_buffer(&pr, (size_t)strtoul(tok[1] + 4, 0, 10)); }
        else { mode = 0; fp = tmpfile(); flatcc_json_printer_init(&pr, fp); }
        p = tok[2];
        while (*p) {
            size_t k = (size_t)strtoul(p + 1, 0, 10), i;
            q = strchr(p, ','); if (q) *q = 0;
            if (*p == 'r') { for (i = 0; i < k; ++i) { flatcc_json_printer_char(&pr, (char)((ctr * 131u + 7u) % 251u)); ++ctr; } }
            else if (*p == 'w') { char *d = malloc(k ? k : 1); for (i = 0; i < k; ++i) { d[i] = (char)((ctr * 131u + 7u) % 251u); ++ctr; } flatcc_json_printer_write(&pr, d, k); free(d); }
            else if (*p == 'i') { flatcc_json_printer_set_indent(&pr, 1); flatcc_json_printer_add_level(&pr, (int)k - flatcc_json_printer_get_level(&pr)); flatcc_json_printer_indent(&pr); }
            else if (*p == 'p') flatcc_json_printer_flush_partial(&pr);
            else if (*p == 'F') flatcc_json_printer_flush(&pr);
            if (!q) break;
            p = q + 1;
        }
        err = flatcc_json_printer_get_error(&pr) != 0;
        {
            size_t total = flatcc_json_printer_total(&pr);
            if (mode == 1) { text = flatcc_json_printer_get_buffer(&pr, &len); err = flatcc_json_printer_get_error(&pr) != 0;
                if (memcmp(fixed + fsize, "CANARY!!", 8)) printf("OVERRUN "); }
            else if (mode == 2) { text = flatcc_json_printer_get_buffer(&pr, &len); }
            else { long fl; flatcc_json_printer_flush(&pr); total = flatcc_json_printer_total(&pr); fl = ftell(fp); rewind(fp); text = malloc((size_t)fl + 1); len = fread(text, 1, (size_t)fl, fp); }
            printf("err=%d total=%zu len=%zu text=", err, mode == 1 && err ? 0 : total, mode == 1 && err ? 0 : len);
            if (err) printf("-\n"); else printf("%08x\n", fnv((uint8_t *)text, len));
        }
        if (mode == 0) { free(text); fclose(fp); }
        flatcc_json_printer_clear(&pr);
        free(fixed);
    }
    return 0;
}
