/* Recursive table sort (generated <Root>_sort): every vector marked `sorted`, wherever it is reachable from the root (table fields,
 * vectors of tables, unions, union vectors), must come out sorted, every other vector unchanged. The schema (rsort.fbs) is rendered
 * by tools/props/c16.py in several declaration orders; this program is the same for all of them. */
#include <stdio.h>
#include <stdlib.h>
#include <string.h>
#include "rsort_builder.h"
#include "rsort_verifier.h"

#undef ns
#define ns(x) FLATBUFFERS_WRAP_NAMESPACE(RS, x)

static int nD = 0;

static ns(D_ref_t) mkD(flatcc_builder_t *B, int seed)
{
    uint64_t nums[4]; int32_t plain[3] = {9, 8, 7}; int i;
    static const char *S[4] = {"pear", "apple", "fig", "apple2"};
    for (i = 0; i < 4; ++i) nums[i] = (uint64_t)((seed * 7 + (3 - i) * 5) % 23) + ((i == 1) ? 0x8000000000000000ull : 0);
    ns(D_start(B));
    ns(D_nums_create(B, nums, 4));
    ns(D_strs_start(B)); for (i = 0; i < 4; ++i) ns(D_strs_push_create_str(B, S[(i + seed) % 4])); ns(D_strs_end(B));
    ns(D_ks_start(B)); for (i = 0; i < 4; ++i) ns(D_ks_push_create(B, (int16_t)((seed + 3 * (4 - i)) % 11 - 5), (int16_t)i)); ns(D_ks_end(B));
    ns(D_items_start(B));
    for (i = 0; i < 3; ++i) { ns(Item_start(B)); ns(Item_name_create_str(B, S[(2 * i + seed + 1) % 4])); ns(Item_w_add(B, i)); ns(D_items_push(B, ns(Item_end(B)))); }
    ns(D_items_end(B));
    ns(D_plain_create(B, plain, 3));
    ns(D_tag_add(B, seed));
    return ns(D_end(B));
}

static ns(A_ref_t) mkA(flatcc_builder_t *B, int seed)
{
    ns(C_ref_t) c; ns(B_ref_t) b; ns(D_ref_t) d1, d2, d3, d4;
    d1 = mkD(B, seed + 1); d2 = mkD(B, seed + 2); d3 = mkD(B, seed + 3); d4 = mkD(B, seed + 4);
    ns(C_start(B)); ns(C_d_add(B, d1)); ns(C_ds_start(B)); ns(C_ds_push(B, d2)); ns(C_ds_push(B, d3)); ns(C_ds_end(B)); c = ns(C_end(B));
    ns(B_start(B)); ns(B_c_add(B, c)); ns(B_name_create_str(B, "b")); b = ns(B_end(B));
    ns(A_start(B)); ns(A_bs_start(B)); ns(A_bs_push(B, b)); ns(A_bs_end(B)); ns(A_d_add(B, d4));
    return ns(A_end(B));
}

static void dumpD(ns(D_table_t) d)
{
    size_t i;
    if (!d) return;
    ++nD;
    printf("D tag=%d nums=", (int)ns(D_tag(d)));
    for (i = 0; i < flatbuffers_uint64_vec_len(ns(D_nums(d))); ++i) printf("%s%llu", i ? "," : "", (unsigned long long)flatbuffers_uint64_vec_at(ns(D_nums(d)), i));
    printf(" strs=");
    for (i = 0; i < flatbuffers_string_vec_len(ns(D_strs(d))); ++i) printf("%s%s", i ? "," : "", flatbuffers_string_vec_at(ns(D_strs(d)), i));
    printf(" ks=");
    for (i = 0; i < ns(KS_vec_len(ns(D_ks(d)))); ++i) printf("%s%d:%d", i ? "," : "", (int)ns(KS_k(ns(KS_vec_at(ns(D_ks(d)), i)))), (int)ns(KS_v(ns(KS_vec_at(ns(D_ks(d)), i)))));
    printf(" items=");
    for (i = 0; i < ns(Item_vec_len(ns(D_items(d)))); ++i) printf("%s%s:%d", i ? "," : "", ns(Item_name(ns(Item_vec_at(ns(D_items(d)), i)))), (int)ns(Item_w(ns(Item_vec_at(ns(D_items(d)), i)))));
    printf(" plain=");
    for (i = 0; i < flatbuffers_int32_vec_len(ns(D_plain(d))); ++i) printf("%s%d", i ? "," : "", (int)flatbuffers_int32_vec_at(ns(D_plain(d)), i));
    printf("\n");
}

static void dumpA(ns(A_table_t) a)
{
    size_t i, j;
    if (!a) return;
    for (i = 0; i < ns(B_vec_len(ns(A_bs(a)))); ++i) {
        ns(C_table_t) c = ns(B_c(ns(B_vec_at(ns(A_bs(a)), i))));
        if (!c) continue;
        dumpD(ns(C_d(c)));
        for (j = 0; j < ns(D_vec_len(ns(C_ds(c)))); ++j) dumpD(ns(D_vec_at(ns(C_ds(c)), j)));
    }
    dumpD(ns(A_d(a)));
}

static void dump(const void *buf)
{
    ns(Root_table_t) r = ns(Root_as_root(buf)); size_t i;
    nD = 0;
    printf("R ids=");
    for (i = 0; i < flatbuffers_int32_vec_len(ns(Root_ids(r))); ++i) printf("%s%d", i ? "," : "", (int)flatbuffers_int32_vec_at(ns(Root_ids(r)), i));
    printf(" plain=");
    for (i = 0; i < flatbuffers_int32_vec_len(ns(Root_plain(r))); ++i) printf("%s%d", i ? "," : "", (int)flatbuffers_int32_vec_at(ns(Root_plain(r)), i));
    printf("\n");
    if (ns(Root_u_type(r)) == ns(U_A)) dumpA((ns(A_table_t))ns(Root_u(r)));
    if (ns(Root_u_type(r)) == ns(U_D)) dumpD((ns(D_table_t))ns(Root_u(r)));
    dumpA(ns(Root_a(r)));
    {
        ns(U_union_vec_t) uv = ns(Root_us_union(r));
        for (i = 0; i < ns(U_union_vec_len(uv)); ++i) {
            ns(U_union_t) u = ns(U_union_vec_at(uv, i));
            if (u.type == ns(U_A)) dumpA((ns(A_table_t))u.value);
            if (u.type == ns(U_D)) dumpD((ns(D_table_t))u.value);
        }
    }
    printf("count D=%d\n", nD);
}

int main(void)
{
    flatcc_builder_t builder, *B = &builder; void *buf; size_t size; int v1, v2;
    int32_t ids[5] = {5, -3, 9, 1, 5}, plain[3] = {3, 1, 2};
    flatcc_builder_init(B);
    ns(Root_start_as_root(B));
    ns(Root_ids_create(B, ids, 5));
    ns(Root_plain_create(B, plain, 3));
    ns(Root_u_A_add(B, mkA(B, 10)));
    ns(Root_a_add(B, mkA(B, 20)));
    ns(Root_us_start(B));
    ns(Root_us_push(B, ns(U_as_D(mkD(B, 30)))));
    ns(Root_us_push(B, ns(U_as_A(mkA(B, 40)))));
    ns(Root_us_end(B));
    ns(Root_end_as_root(B));
    buf = flatcc_builder_finalize_aligned_buffer(B, &size);
    if (!buf) { printf("build-failed\n"); return 2; }
    v1 = ns(Root_verify_as_root(buf, size));
    printf("before verify=%d\n", v1); dump(buf);
    ns(Root_sort((ns(Root_mutable_table_t))ns(Root_as_root(buf))));
    v2 = ns(Root_verify_as_root(buf, size));
    printf("after verify=%d\n", v2); dump(buf);
    flatcc_builder_aligned_free(buf);
    flatcc_builder_clear(B);
    return 0;
}
