/* C09 generated-code scenario: buffers built with schema B read/verified/printed with schema A's code and vice versa. */
#include <stdio.h>
#include <string.h>
#include "a_builder.h"
#include "a_verifier.h"
#include "a_json_printer.h"
#include "b_builder.h"
#include "b_verifier.h"
#include "b_json_printer.h"


static void dumpA(const void *buf) {
    EvoA_Root_table_t r = EvoA_Root_as_root(buf); size_t i;
    printf("id=%d pos=%s", EvoA_Root_id(r), EvoA_Root_pos(r) ? "y" : "n");
    if (EvoA_Root_pos(r)) printf("(%g,%g)", EvoA_Root_pos(r)->x, EvoA_Root_pos(r)->y);
    if (EvoA_Root_leaf(r)) printf(" leaf=(%d,%s)", EvoA_Leaf_v(EvoA_Root_leaf(r)), EvoA_Leaf_name(EvoA_Root_leaf(r)) ? EvoA_Leaf_name(EvoA_Root_leaf(r)) : "-"); else printf(" leaf=-");
    { int ty = EvoA_Root_any_type(r); printf(" any=%d", ty > 2 ? -1 : ty); /* unknown kinds are compared as 'unknown' */
      if (ty == 1) printf(":(%d)", EvoA_Leaf_v((EvoA_Leaf_table_t)EvoA_Root_any(r))); if (ty == 2) printf(":(%g)", ((EvoA_Vec_struct_t)EvoA_Root_any(r))->x); }
    printf(" anys=["); if (EvoA_Root_anys_type(r)) { EvoA_Any_union_vec_t uv = EvoA_Root_anys_union(r);
        for (i = 0; i < EvoA_Any_union_vec_len(uv); ++i) { EvoA_Any_union_t u = EvoA_Any_union_vec_at(uv, i);
            if (u.type == 1) printf("L%d ", EvoA_Leaf_v((EvoA_Leaf_table_t)u.value)); else if (u.type == 2) printf("V%g ", ((EvoA_Vec_struct_t)u.value)->x); else if (u.type == 0) printf("N "); else printf("? "); } }
    printf("] names=["); if (EvoA_Root_names(r)) for (i = 0; i < flatbuffers_string_vec_len(EvoA_Root_names(r)); ++i) printf("%s ", flatbuffers_string_vec_at(EvoA_Root_names(r), i));
    printf("] color=%d leaves=[", (int)EvoA_Root_color(r) > 1 ? -1 : (int)EvoA_Root_color(r));
    if (EvoA_Root_leaves(r)) for (i = 0; i < EvoA_Leaf_vec_len(EvoA_Root_leaves(r)); ++i) printf("%d ", EvoA_Leaf_v(EvoA_Leaf_vec_at(EvoA_Root_leaves(r), i)));
    printf("] nums=["); if (EvoA_Root_nums(r)) for (i = 0; i < flatbuffers_int16_vec_len(EvoA_Root_nums(r)); ++i) printf("%d ", flatbuffers_int16_vec_at(EvoA_Root_nums(r), i));
    printf("]\n");
}
static void dumpB(const void *buf) {
    EvoB_Root_table_t r = EvoB_Root_as_root(buf); size_t i;
    printf("id=%d pos=%s", EvoB_Root_id(r), EvoB_Root_pos(r) ? "y" : "n");
    if (EvoB_Root_pos(r)) printf("(%g,%g)", EvoB_Root_pos(r)->x, EvoB_Root_pos(r)->y);
    if (EvoB_Root_leaf(r)) printf(" leaf=(%d,%s)", EvoB_Leaf_v(EvoB_Root_leaf(r)), EvoB_Leaf_name(EvoB_Root_leaf(r)) ? EvoB_Leaf_name(EvoB_Root_leaf(r)) : "-"); else printf(" leaf=-");
    { int ty = EvoB_Root_any_type(r); printf(" any=%d", ty > 2 ? -1 : ty);
      if (ty == 1) printf(":(%d)", EvoB_Leaf_v((EvoB_Leaf_table_t)EvoB_Root_any(r))); if (ty == 2) printf(":(%g)", ((EvoB_Vec_struct_t)EvoB_Root_any(r))->x); }
    printf(" anys=["); if (EvoB_Root_anys_type(r)) { EvoB_Any_union_vec_t uv = EvoB_Root_anys_union(r);
        for (i = 0; i < EvoB_Any_union_vec_len(uv); ++i) { EvoB_Any_union_t u = EvoB_Any_union_vec_at(uv, i);
            if (u.type == 1) printf("L%d ", EvoB_Leaf_v((EvoB_Leaf_table_t)u.value)); else if (u.type == 2) printf("V%g ", ((EvoB_Vec_struct_t)u.value)->x); else if (u.type == 0) printf("N "); else printf("? "); } }
    printf("] names=["); if (EvoB_Root_names(r)) for (i = 0; i < flatbuffers_string_vec_len(EvoB_Root_names(r)); ++i) printf("%s ", flatbuffers_string_vec_at(EvoB_Root_names(r), i));
    printf("] color=%d leaves=[", (int)EvoB_Root_color(r) > 1 ? -1 : (int)EvoB_Root_color(r));
    if (EvoB_Root_leaves(r)) for (i = 0; i < EvoB_Leaf_vec_len(EvoB_Root_leaves(r)); ++i) printf("%d ", EvoB_Leaf_v(EvoB_Leaf_vec_at(EvoB_Root_leaves(r), i)));
    printf("] nums=["); if (EvoB_Root_nums(r)) for (i = 0; i < flatbuffers_int16_vec_len(EvoB_Root_nums(r)); ++i) printf("%d ", flatbuffers_int16_vec_at(EvoB_Root_nums(r), i));
    printf("]\n");
}

/* <T>_create with a null reference argument fails: build leaves with start/add/end */
static EvoB_Leaf_ref_t leafB(flatcc_builder_t *Bd, int v, double w) { EvoB_Leaf_start(Bd); EvoB_Leaf_v_add(Bd, v); if (w != 0) EvoB_Leaf_w_add(Bd, w); return EvoB_Leaf_end(Bd); }
static EvoA_Leaf_ref_t leafA(flatcc_builder_t *Bd, int v) { EvoA_Leaf_start(Bd); EvoA_Leaf_v_add(Bd, v); return EvoA_Leaf_end(Bd); }
static void buildB_body(flatcc_builder_t *Bd, unsigned v) {
    flatcc_builder_reset(Bd);
    EvoB_Root_start_as_root(Bd);
    if (v & 1) EvoB_Root_id_add(Bd, (int)(v * 1000 + 7));
    if (v & 2) EvoB_Root_pos_create(Bd, 1.5f + v, -2.0f);
    if (v & 4) { EvoB_Leaf_start(Bd); EvoB_Leaf_v_add(Bd, 42); EvoB_Leaf_name_create_str(Bd, "leafname"); if (v & 64) EvoB_Leaf_w_add(Bd, 2.5); if (v & 128) { uint8_t m[3] = {1,2,3}; EvoB_Leaf_more_create(Bd, m, 3); } EvoB_Root_leaf_add(Bd, EvoB_Leaf_end(Bd)); }
    switch ((v >> 3) & 7) {   /* the single union: NONE, old kinds, new kinds */
    case 1: EvoB_Root_any_Leaf_add(Bd, leafB(Bd, 5, 0)); break;
    case 2: EvoB_Root_any_Vec_add(Bd, EvoB_Vec_create(Bd, 3.0f, 4.0f)); break;
    case 3: { EvoB_Extra_start(Bd); int64_t big[2] = {1, -1}; EvoB_Extra_big_create(Bd, big, 2); EvoB_Root_any_Extra_add(Bd, EvoB_Extra_end(Bd)); } break;
    case 4: EvoB_Root_any_Text_add(Bd, flatbuffers_string_create_str(Bd, "text member")); break;
    /* new struct members smaller than an offset and with alignment 1: they may sit at any address, also as the very last byte(s) of the buffer */
    case 5: EvoB_Root_any_Tag_add(Bd, EvoB_Tag_create(Bd, 0x5a)); break;
    case 6: EvoB_Root_any_Tri_add(Bd, EvoB_Tri_create(Bd, 1, 2, 3)); break;
    default: break;
    }
    if (v & 256) {
        EvoB_Root_anys_start(Bd);
        EvoB_Root_anys_push(Bd, EvoB_Any_as_Leaf(leafB(Bd, 11, 0)));
        if (v & 512) EvoB_Root_anys_push(Bd, EvoB_Any_as_Text(flatbuffers_string_create_str(Bd, "t")));
        EvoB_Root_anys_push(Bd, EvoB_Any_as_NONE());
        if (v & 1024) { EvoB_Extra_start(Bd); EvoB_Root_anys_push(Bd, EvoB_Any_as_Extra(EvoB_Extra_end(Bd))); }
        if (v & 2) EvoB_Root_anys_push(Bd, EvoB_Any_as_Tag(EvoB_Tag_create(Bd, 7)));
        if (v & 1) { EvoB_Root_anys_push(Bd, EvoB_Any_as_Tri(EvoB_Tri_create(Bd, 9, 8, 7))); EvoB_Root_anys_push(Bd, EvoB_Any_as_Tag(EvoB_Tag_create(Bd, 1))); }
        EvoB_Root_anys_push(Bd, EvoB_Any_as_Vec(EvoB_Vec_create(Bd, 9.0f, 8.0f)));
        EvoB_Root_anys_end(Bd);
    }
    if (v & 2048) { EvoB_Root_names_start(Bd); EvoB_Root_names_push_create_str(Bd, "n1"); EvoB_Root_names_push_create_str(Bd, ""); EvoB_Root_names_end(Bd); }
    EvoB_Root_color_add(Bd, (v & 4096) ? EvoB_Color_Blue : (v & 8192) ? EvoB_Color_Red : EvoB_Color_Green);
    if (v & 16384) { EvoB_Root_leaves_start(Bd); EvoB_Root_leaves_push(Bd, leafB(Bd, 1, 3.5)); EvoB_Root_leaves_push(Bd, leafB(Bd, 2, 0)); EvoB_Root_leaves_end(Bd); }
    if (v & 32768) { int16_t n[3] = {-1, 0, 32767}; EvoB_Root_nums_create(Bd, n, 3); }
    /* fields only B knows */
    if (v & 64) EvoB_Root_extra_add(Bd, 123456789012LL);
    if (v & 128) { EvoB_Root_tags_start(Bd); EvoB_Root_tags_push_create_str(Bd, "tag"); EvoB_Root_tags_end(Bd); EvoB_Root_more_add(Bd, leafB(Bd, 77, 1.0)); }
    if (v & 512) EvoB_Root_any2_Text_add(Bd, flatbuffers_string_create_str(Bd, "any2"));
    if (v & 1024) { EvoB_Extra_start(Bd); EvoB_Root_ex_add(Bd, EvoB_Extra_end(Bd)); EvoB_Color_enum_t cs[2] = { EvoB_Color_Violet, EvoB_Color_Red }; EvoB_Root_colors_create(Bd, cs, 2); }
    EvoB_Root_end_as_root(Bd);
}
static void *buildB(flatcc_builder_t *Bd, unsigned v, size_t *size) {
    buildB_body(Bd, v);
    return flatcc_builder_finalize_aligned_buffer(Bd, size);
}

static void *buildA(flatcc_builder_t *Bd, unsigned v, size_t *size) {
    flatcc_builder_reset(Bd);
    EvoA_Root_start_as_root(Bd);
    if (v & 1) EvoA_Root_id_add(Bd, (int)(v * 1000 + 7));
    if (v & 2) EvoA_Root_pos_create(Bd, 1.5f + v, -2.0f);
    if (v & 4) EvoA_Root_leaf_add(Bd, EvoA_Leaf_create(Bd, 42, flatbuffers_string_create_str(Bd, "leafname")));
    if (((v >> 3) & 3) == 1) EvoA_Root_any_Leaf_add(Bd, leafA(Bd, 5));
    if (((v >> 3) & 3) == 2) EvoA_Root_any_Vec_add(Bd, EvoA_Vec_create(Bd, 3.0f, 4.0f));
    if (v & 32) { EvoA_Root_anys_start(Bd); EvoA_Root_anys_push(Bd, EvoA_Any_as_Leaf(leafA(Bd, 11))); EvoA_Root_anys_push(Bd, EvoA_Any_as_NONE()); EvoA_Root_anys_push(Bd, EvoA_Any_as_Vec(EvoA_Vec_create(Bd, 9.0f, 8.0f))); EvoA_Root_anys_end(Bd); }
    if (v & 64) { EvoA_Root_names_start(Bd); EvoA_Root_names_push_create_str(Bd, "n1"); EvoA_Root_names_end(Bd); }
    if (v & 128) EvoA_Root_color_add(Bd, EvoA_Color_Red);
    if (v & 256) { EvoA_Root_leaves_start(Bd); EvoA_Root_leaves_push(Bd, leafA(Bd, 1)); EvoA_Root_leaves_end(Bd); }
    if (v & 512) { int16_t n[2] = {-5, 5}; EvoA_Root_nums_create(Bd, n, 2); }
    EvoA_Root_end_as_root(Bd);
    return flatcc_builder_finalize_aligned_buffer(Bd, size);
}

#ifndef EVO_NO_MAIN
int main(int argc, char **argv)
{
    flatcc_builder_t Bd; unsigned v, nvar = argc > 1 ? (unsigned)atoi(argv[1]) : 2048, step = argc > 2 ? (unsigned)atoi(argv[2]) : 1;
    flatcc_builder_init(&Bd);
    for (v = 0; v < 65536 && nvar; v += step, --nvar) {
        size_t size; void *buf = buildB(&Bd, v * 2654435761u % 65536, &size); int ra, rb; flatcc_json_printer_t pr; char *json; size_t jlen;
        unsigned vv = v * 2654435761u % 65536;
        ra = EvoA_Root_verify_as_root(buf, size); rb = EvoB_Root_verify_as_root(buf, size);
        printf("B%u verifyA=%d verifyB=%d\n", vv, ra, rb);
        if (ra == 0 && rb == 0) {
            printf("B%u readA ", vv); dumpA(buf); printf("B%u readB ", vv); dumpB(buf);
            flatcc_json_printer_init_dynamic_buffer(&pr, 0);
            EvoA_Root_print_json_as_root(&pr, buf, size, 0);
            json = flatcc_json_printer_finalize_dynamic_buffer(&pr, &jlen);
            printf("B%u printA err=%d len=%d text=", vv, flatcc_json_printer_get_error(&pr), (int)(json ? jlen : 0));
            { size_t q; for (q = 0; json && q < jlen; ++q) printf("%02x", (unsigned char)json[q]); } printf("\n");
            free(json);
            flatcc_json_printer_clear(&pr);
        }
        flatcc_builder_aligned_free(buf);
    }
    for (v = 0; v < 1024; ++v) {
        size_t size; void *buf = buildA(&Bd, v, &size); int ra, rb;
        ra = EvoA_Root_verify_as_root(buf, size); rb = EvoB_Root_verify_as_root(buf, size);
        printf("A%u verifyA=%d verifyB=%d\n", v, ra, rb);
        if (ra == 0 && rb == 0) {
            EvoB_Root_table_t r = EvoB_Root_as_root(buf);
            printf("A%u readA ", v); dumpA(buf); printf("A%u readB ", v); dumpB(buf);
            printf("A%u newB extra=%lld present=%d tags=%d more=%d any2=%d ex=%d colors=%d\n", v, (long long)EvoB_Root_extra(r), EvoB_Root_extra_is_present(r),
                   EvoB_Root_tags(r) != 0, EvoB_Root_more(r) != 0, (int)EvoB_Root_any2_type(r), EvoB_Root_ex(r) != 0, EvoB_Root_colors(r) != 0);
        }
        flatcc_builder_aligned_free(buf);
    }
    /* long runs of union vector members of kinds only B knows: A's printer emits `,null` per member and must still reach its flush points */
    {
        static const unsigned runs[] = {1, 12, 13, 14, 100, 400, 600, 820, 1000, 1700, 2500, 4000, 10000};
        unsigned k, mode, i;
        for (k = 0; k < sizeof(runs) / sizeof(runs[0]); ++k) for (mode = 0; mode < 2; ++mode) {
            size_t size, jlen = 0, flen = 0; void *buf; int ra, rb, e1, e2; flatcc_json_printer_t pr; char *json, *ftext = 0; FILE *fp; unsigned N = runs[k];
            flatcc_builder_reset(&Bd);
            EvoB_Root_start_as_root(&Bd);
            EvoB_Root_id_add(&Bd, (int)N);
            EvoB_Root_anys_start(&Bd);
            EvoB_Root_anys_push(&Bd, EvoB_Any_as_Leaf(leafB(&Bd, 1, 0)));
            for (i = 0; i < N; ++i) switch (mode ? i % 4 : 0) {
                case 0: EvoB_Root_anys_push(&Bd, EvoB_Any_as_Tag(EvoB_Tag_create(&Bd, (uint8_t)i))); break;
                case 1: EvoB_Root_anys_push(&Bd, EvoB_Any_as_Tri(EvoB_Tri_create(&Bd, 1, 2, 3))); break;
                case 2: EvoB_Root_anys_push(&Bd, EvoB_Any_as_Text(flatbuffers_string_create_str(&Bd, "x"))); break;
                default: { EvoB_Extra_start(&Bd); EvoB_Root_anys_push(&Bd, EvoB_Any_as_Extra(EvoB_Extra_end(&Bd))); } break;
            }
            EvoB_Root_anys_push(&Bd, EvoB_Any_as_Leaf(leafB(&Bd, 2, 0)));
            EvoB_Root_anys_end(&Bd);
            EvoB_Root_end_as_root(&Bd);
            buf = flatcc_builder_finalize_aligned_buffer(&Bd, &size);
            ra = EvoA_Root_verify_as_root(buf, size); rb = EvoB_Root_verify_as_root(buf, size);
            printf("R%u.%u verifyA=%d verifyB=%d\n", N, mode, ra, rb);
            if (ra == 0 && rb == 0) {
                flatcc_json_printer_init_dynamic_buffer(&pr, 0);
                EvoA_Root_print_json_as_root(&pr, buf, size, 0);
                json = flatcc_json_printer_finalize_dynamic_buffer(&pr, &jlen);
                e1 = flatcc_json_printer_get_error(&pr);
                flatcc_json_printer_clear(&pr);
                fp = tmpfile();
                flatcc_json_printer_init(&pr, fp);
                EvoA_Root_print_json_as_root(&pr, buf, size, 0);
                flatcc_json_printer_flush(&pr);
                e2 = flatcc_json_printer_get_error(&pr);
                flatcc_json_printer_clear(&pr);
                flen = (size_t)ftell(fp); rewind(fp); ftext = malloc(flen + 1); flen = fread(ftext, 1, flen, fp); fclose(fp);
                printf("R%u.%u printA err=%d len=%d file=%s text=", N, mode, e1, (int)(json ? jlen : 0),
                       e2 ? "error" : (json && flen == jlen && !memcmp(ftext, json, jlen)) ? "same" : "DIFF");
                { size_t q; for (q = 0; json && q < jlen; ++q) printf("%02x", (unsigned char)json[q]); } printf("\n");
                free(json); free(ftext);
            }
            flatcc_builder_aligned_free(buf);
        }
    }
    flatcc_builder_clear(&Bd);
    return 0;
}
#endif
