/* C12 (first half): the emit calls the builder makes form one contiguous stream.
 * A recording emitter checks every call against the property and reassembles the stream;
 * the same history through the default emitter must give the same bytes. */
#define EVO_NO_MAIN
#include "evo.c"

typedef struct { long front, back; long calls, bad; uint8_t *mem; size_t cap; long lo; int maxiov; size_t nonempty_calls; char why[200]; } rec_t;
#define RCAP (1 << 20)

static int rec_emit(void *ctx, const flatcc_iovec_t *iov, int iov_count, flatbuffers_soffset_t offset, size_t len)
{
    rec_t *r = ctx; size_t sum = 0; int i; uint8_t *p;
    ++r->calls;
    if (iov_count < 1 || iov_count > FLATCC_IOV_COUNT_MAX) { ++r->bad; snprintf(r->why, sizeof r->why, "iov_count %d out of [1,%d]", iov_count, FLATCC_IOV_COUNT_MAX); }
    if (iov_count > r->maxiov) r->maxiov = iov_count;
    for (i = 0; i < iov_count; ++i) { if (iov[i].iov_len == 0) { ++r->bad; snprintf(r->why, sizeof r->why, "empty iov piece %d of %d", i, iov_count); } sum += iov[i].iov_len; }
    if (sum != len) { ++r->bad; snprintf(r->why, sizeof r->why, "pieces sum to %zu, len %zu", sum, len); }
    if (len == 0) { ++r->bad; snprintf(r->why, sizeof r->why, "empty emit call"); }
    if (offset < 0) {
        if ((long)offset != r->front - (long)len) { ++r->bad; snprintf(r->why, sizeof r->why, "front call at %ld len %zu, expected start %ld", (long)offset, len, r->front - (long)len); }
        r->front = offset;
    } else {
        if ((long)offset != r->back) { ++r->bad; snprintf(r->why, sizeof r->why, "back call at %ld, expected %ld", (long)offset, r->back); }
        r->back = offset + (long)len;
    }
    if (offset < -(long)(RCAP / 2) || offset + (long)len > (long)(RCAP / 2)) return -1;
    p = r->mem + RCAP / 2 + offset;
    for (i = 0; i < iov_count; ++i) { memcpy(p, iov[i].iov_base, iov[i].iov_len); p += iov[i].iov_len; }
    return 0;
}

int main(int argc, char **argv)
{
    unsigned nvar = argc > 1 ? (unsigned)atoi(argv[1]) : 500, step = argc > 2 ? (unsigned)atoi(argv[2]) : 131, v, k;
    flatcc_builder_t B1, B2; rec_t r; long bad = 0, calls = 0, mism = 0; int maxiov = 0;
    memset(&r, 0, sizeof r); r.mem = malloc(RCAP);
    flatcc_builder_init(&B1);
    flatcc_builder_custom_init(&B2, rec_emit, &r, 0, 0);
    for (k = 0, v = 0; k < nvar; ++k, v = (v + step) % 65536) {
        int cfg;
        for (cfg = 0; cfg < 4; ++cfg) {
            size_t size; void *buf;
            flatcc_builder_reset(&B1); flatcc_builder_reset(&B2);
            if (cfg & 1) { flatcc_builder_set_vtable_clustering(&B1, 0); flatcc_builder_set_vtable_clustering(&B2, 0); }
            else { flatcc_builder_set_vtable_clustering(&B1, 1); flatcc_builder_set_vtable_clustering(&B2, 1); }
            if (cfg & 2) { flatcc_builder_set_block_align(&B1, 64); flatcc_builder_set_block_align(&B2, 64); }
            else { flatcc_builder_set_block_align(&B1, 0); flatcc_builder_set_block_align(&B2, 0); }
            r.front = r.back = 0; r.why[0] = 0;
            /* note: buildB_body resets the builder again; settings survive reset by design */
            buildB_body(&B2, v);
            buildB_body(&B1, v);
            buf = flatcc_builder_finalize_aligned_buffer(&B1, &size);
            if (r.bad != bad) { printf("BAD v=%u cfg=%d: %s\n", v, cfg, r.why); bad = r.bad; }
            if (!buf || (size_t)(r.back - r.front) != size || memcmp(buf, r.mem + RCAP / 2 + r.front, size)) {
                ++mism; printf("MISMATCH v=%u cfg=%d default-emitter size=%zu recorded [%ld,%ld)\n", v, cfg, size, r.front, r.back);
            }
            if (buf) flatcc_builder_aligned_free(buf);
        }
    }
    calls = r.calls; maxiov = r.maxiov;
    printf("histories=%u calls=%ld bad=%ld mismatches=%ld maxiov=%d\n", nvar * 4, calls, r.bad, mism, maxiov);
    flatcc_builder_clear(&B1); flatcc_builder_clear(&B2); free(r.mem);
    return 0;
}
