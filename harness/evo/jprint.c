/* C11 whole-printer sweep (generated JSON printer of harness/evo/b.fbs):
 * for a buffer variant, print to a growing buffer (reference text) and then into fixed buffers of EVERY size
 * from the reserve up to text length + reserve + margin; each fixed run must terminate, stay inside the buffer
 * (ASan + canary), and either flag overflow or produce exactly the reference text and length.
 * usage: jprint <first-variant> <count> <step> <flagset>
 */
#define EVO_NO_MAIN
#include "evo.c"
#include <signal.h>
#include <unistd.h>

static unsigned cur_v, cur_size, cur_flags; static const char *cur_mode = "";
static void on_alarm(int s) { (void)s; printf("HANG v=%u flags=%u mode=%s size=%u\n", cur_v, cur_flags, cur_mode, cur_size); fflush(stdout); _exit(3); }

static void set_flags(flatcc_json_printer_t *pr, unsigned f)
{
    /* f: bit0 unquote, bit1 noenum, bit2 skip_default, bit3 force_default, bits 4..: indent selector */
    static const int indents[] = { 0, 1, 2, 4, 255 };
    flatcc_json_printer_set_unquoted(pr, f & 1); flatcc_json_printer_set_noenum(pr, (f >> 1) & 1);
    flatcc_json_printer_set_skip_default(pr, (f >> 2) & 1); flatcc_json_printer_set_force_default(pr, (f >> 3) & 1);
    flatcc_json_printer_set_indent(pr, (uint8_t)indents[(f >> 4) % 5]);
}

/* a variant with many empty tables / NONE unions / base64 data to stress unchecked runs */
static void *buildStress(flatcc_builder_t *Bd, unsigned v, size_t *size)
{
    unsigned i, n = v % 97;
    flatcc_builder_reset(Bd);
    EvoB_Root_start_as_root(Bd);
    if (v & 1) { EvoB_Root_exs_start(Bd); for (i = 0; i < n; ++i) { EvoB_Extra_start(Bd); EvoB_Root_exs_push(Bd, EvoB_Extra_end(Bd)); } EvoB_Root_exs_end(Bd); }
    if (v & 2) { EvoB_Root_anys_start(Bd); for (i = 0; i < n; ++i) EvoB_Root_anys_push(Bd, EvoB_Any_as_NONE()); EvoB_Root_anys_end(Bd); }
    if (v & 4) { uint8_t *b; EvoB_Root_blob_start(Bd); b = EvoB_Root_blob_extend(Bd, n * 3 + (v >> 3) % 3); for (i = 0; b && i < n * 3 + (v >> 3) % 3; ++i) b[i] = (uint8_t)(i * 7 + v); EvoB_Root_blob_end(Bd); }
    if (v & 8) { EvoB_Root_names_start(Bd); for (i = 0; i < n; ++i) EvoB_Root_names_push_create_str(Bd, i % 5 ? "" : "\x01\x02\"\\\n"); EvoB_Root_names_end(Bd); }
    /* strings that are nothing but escapes: runs of control characters / quotes / backslashes of every length 0..96
     * (the only flush tests inside such a run are the ones print_string makes between two escapes) */
    if (v & 32) { char run[200]; unsigned m = (v >> 6) & 3; static const char pat[4][4] = { "\x01\x01\x01", "\"\"\"", "\\\n\\", "\x1f\x7f\t" };
        EvoB_Root_tags_start(Bd);
        for (i = 0; i < n; ++i) run[i] = pat[m][i % 3];
        run[n] = 0; EvoB_Root_tags_push_create_str(Bd, run);
        run[n / 2] = 0; EvoB_Root_tags_push_create_str(Bd, run);
        run[n / 2] = 'a'; EvoB_Root_tags_push_create_str(Bd, run);
        EvoB_Root_tags_end(Bd); }
    if (v & 16) { EvoB_Root_colors_start(Bd); for (i = 0; i < n; ++i) EvoB_Root_colors_push_create(Bd, (EvoB_Color_enum_t)(i % 11)); EvoB_Root_colors_end(Bd); }
    EvoB_Root_end_as_root(Bd);
    return flatcc_builder_finalize_aligned_buffer(Bd, size);
}

/* long texts: one plain string that puts the end of the text at every offset around a multiple of the FILE printer's flush unit (16384):
 * v % 200 walks the end of the text across the boundary, (v / 200) % 3 chooses 1, 2 or 3 units */
static void *buildLong(flatcc_builder_t *Bd, unsigned v, size_t *size)
{
    size_t L = 16384 * (1 + (v / 200) % 3) - 120 + v % 200; char *s = malloc(L + 1);
    memset(s, 'x', L); s[L] = 0;
    flatcc_builder_reset(Bd);
    EvoB_Root_start_as_root(Bd);
    EvoB_Root_id_add(Bd, (int)v);
    /* the long string first, then a number of maximal width: the longest run of bytes written without a flush test ends the text */
    EvoB_Root_names_start(Bd); EvoB_Root_names_push_create(Bd, s, L); EvoB_Root_names_end(Bd);
    EvoB_Root_extra_add(Bd, INT64_MIN);
    EvoB_Root_end_as_root(Bd);
    free(s);
    return flatcc_builder_finalize_aligned_buffer(Bd, size);
}

int main(int argc, char **argv)
{
    unsigned v0 = argc > 1 ? (unsigned)atoi(argv[1]) : 0, cnt = argc > 2 ? (unsigned)atoi(argv[2]) : 10, step = argc > 3 ? (unsigned)atoi(argv[3]) : 1;
    unsigned flags = argc > 4 ? (unsigned)atoi(argv[4]) : 0, k, stress = argc > 5 ? (unsigned)atoi(argv[5]) : 0;
    flatcc_builder_t Bd; unsigned long runs = 0, bad = 0, overflows = 0, exact = 0;
    signal(SIGALRM, on_alarm);
    flatcc_builder_init(&Bd);
    for (k = 0; k < cnt; ++k) {
        unsigned v = (v0 + k * step) % 65536; size_t size, reflen = 0, flen, s; void *buf; char *ref; flatcc_json_printer_t pr; int rlen, err;
        buf = stress == 2 ? buildLong(&Bd, v, &size) : stress ? buildStress(&Bd, v, &size) : buildB(&Bd, v, &size);
        cur_v = v; cur_flags = flags;
        cur_mode = "dynamic"; cur_size = 0; alarm(20);
        flatcc_json_printer_init_dynamic_buffer(&pr, 64 + (v % 200));
        set_flags(&pr, flags);
        rlen = EvoB_Root_print_json_as_root(&pr, buf, size, 0);
        err = flatcc_json_printer_get_error(&pr);
        ref = flatcc_json_printer_finalize_dynamic_buffer(&pr, &reflen);
        if (err || rlen < 0 || (size_t)rlen != reflen || !ref || strlen(ref) != reflen) { printf("BAD v=%u flags=%u dynamic: err=%d ret=%d len=%zu\n", v, flags, err, rlen, reflen); ++bad; free(ref); flatcc_builder_aligned_free(buf); continue; }
        cur_mode = "fixed";
        for (s = FLATCC_JSON_PRINT_RESERVE; s <= reflen + FLATCC_JSON_PRINT_RESERVE + 8; ++s) {
            char *fb; int r;
            /* long texts: every size around the text length, a sample of the sizes far below it */
            if (reflen > 4096 && s + 300 < reflen && s % 1013) continue;
            fb = malloc(s + 8);
            memset(fb, 0x7e, s); memcpy(fb + s, "CANARY!!", 8);
            cur_size = (unsigned)s; alarm(20);
            flatcc_json_printer_init_buffer(&pr, fb, s);
            set_flags(&pr, flags);
            r = EvoB_Root_print_json_as_root(&pr, buf, size, 0);
            err = flatcc_json_printer_get_error(&pr);
            ++runs;
            if (memcmp(fb + s, "CANARY!!", 8)) { printf("BAD v=%u flags=%u fixed size=%zu: wrote past the buffer\n", v, flags, s); ++bad; }
            if (err == flatcc_json_printer_error_overflow || r < 0) {
                ++overflows;
                if (reflen + FLATCC_JSON_PRINT_RESERVE < s) { printf("BAD v=%u flags=%u fixed size=%zu: overflow although text (%zu) is shorter than size - reserve\n", v, flags, s, reflen); ++bad; }
                if (!(err == flatcc_json_printer_error_overflow && r < 0)) { printf("BAD v=%u flags=%u fixed size=%zu: inconsistent failure err=%d ret=%d\n", v, flags, s, err, r); ++bad; }
            } else {
                ++exact;
                flen = (size_t)r;
                if (err || flen != reflen || flen >= s || fb[flen] != 0 || memcmp(fb, ref, reflen)) {
                    printf("BAD v=%u flags=%u fixed size=%zu: success reported but text differs (len %zu vs %zu, err %d)\n", v, flags, s, flen, reflen, err); ++bad; }
            }
            flatcc_json_printer_clear(&pr);
            free(fb);
        }
        /* file mode: the root print call flushes what it printed; with and without a further explicit flush the file must hold the whole text */
        { int extra_flush;
          for (extra_flush = 0; extra_flush < 2; ++extra_flush) {
          FILE *fp = tmpfile(); char *fbuf; long fl; cur_mode = "file"; alarm(20);
          flatcc_json_printer_init(&pr, fp); set_flags(&pr, flags);
          rlen = EvoB_Root_print_json_as_root(&pr, buf, size, 0); if (extra_flush) flatcc_json_printer_flush(&pr);
          err = flatcc_json_printer_get_error(&pr); flatcc_json_printer_clear(&pr);
          fflush(fp); fseek(fp, 0, SEEK_END);
          fl = ftell(fp); rewind(fp); fbuf = malloc((size_t)fl + 1); if (fread(fbuf, 1, (size_t)fl, fp) != (size_t)fl) fl = -1; fclose(fp);
          if (err || (size_t)fl != reflen || (size_t)rlen != reflen || memcmp(fbuf, ref, reflen)) { printf("BAD v=%u flags=%u file (explicit flush: %d): differs from dynamic (len %ld vs %zu err %d)\n", v, flags, extra_flush, fl, reflen, err); ++bad; }
          free(fbuf); } }
        alarm(0);
        free(ref); flatcc_builder_aligned_free(buf);
    }
    printf("variants=%u fixed_runs=%lu exact=%lu overflow=%lu bad=%lu\n", cnt, runs, exact, overflows, bad);
    flatcc_builder_clear(&Bd);
    return 0;
}
