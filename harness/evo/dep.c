/* C09, "deprecating non-required fields" is a permitted evolution: DepB = DepA with a scalar, a union, a union vector, a string and a
 * table field deprecated (declared before fields that stay) and one new field at the end. Every subset of A's fields is built with
 * A's code and verified / read with B's; every subset of B's fields is built with B's code and verified / read / printed with A's.
 * One line per variant: "<A|B><mask> ok" or "<A|B><mask> FAIL <what>". */
#include <stdio.h>
#include <string.h>
#include "da_builder.h"
#include "da_verifier.h"
#include "da_json_printer.h"
#include "db_builder.h"
#include "db_verifier.h"
#include "db_json_printer.h"

static const int16_t tail[3] = { -3, 7, 12 };

static void *build_a(flatcc_builder_t *B, unsigned m, size_t *n)
{
    flatcc_builder_reset(B);
    DepA_Root_start_as_root(B);
    if (m & 1) DepA_Root_id_add(B, 1000 + (int)m);
    if (m & 2) DepA_Root_old_s_add(B, (int16_t)(m + 3));
    if (m & 4) {
        if (m & 1024) DepA_Root_u_Vec_create(B, 1.5f, 2.5f);
        else DepA_Root_u_Leaf_add(B, DepA_Leaf_create(B, 7));
    }
    if (m & 8) DepA_Root_name_create_str(B, "the name");
    if (m & 16) {
        DepA_Root_us_start(B);
        DepA_Root_us_push(B, DepA_Any_as_Leaf(DepA_Leaf_create(B, 8)));
        DepA_Root_us_push(B, DepA_Any_as_Vec(DepA_Vec_create(B, 3.0f, 4.0f)));
        DepA_Root_us_end(B);
    }
    if (m & 32) DepA_Root_c_add(B, 123456789012LL + (int64_t)m);
    if (m & 64) DepA_Root_old_str_create_str(B, "old");
    if (m & 128) DepA_Root_tail_create(B, tail, 3);
    if (m & 256) DepA_Root_l_add(B, DepA_Leaf_create(B, 9));
    if (m & 512) DepA_Root_z_add(B, 200);
    DepA_Root_end_as_root(B);
    return flatcc_builder_finalize_aligned_buffer(B, n);
}

static void *build_b(flatcc_builder_t *B, unsigned m, size_t *n)
{
    flatcc_builder_reset(B);
    DepB_Root_start_as_root(B);
    if (m & 1) DepB_Root_id_add(B, 1000 + (int)m);
    if (m & 2) DepB_Root_name_create_str(B, "the name");
    if (m & 4) DepB_Root_c_add(B, 123456789012LL + (int64_t)m);
    if (m & 8) DepB_Root_tail_create(B, tail, 3);
    if (m & 16) DepB_Root_z_add(B, 200);
    if (m & 32) DepB_Root_d_add(B, (int16_t)(m - 40));
    DepB_Root_end_as_root(B);
    return flatcc_builder_finalize_aligned_buffer(B, n);
}

static int same_shared(const void *buf, char *why)
{
    DepA_Root_table_t a = DepA_Root_as_root(buf);
    DepB_Root_table_t b = DepB_Root_as_root(buf);
    size_t i;
    if (!a || !b) { strcpy(why, "as_root returns null"); return 0; }
    if (DepA_Root_id(a) != DepB_Root_id(b) || DepA_Root_id_is_present(a) != DepB_Root_id_is_present(b)) { sprintf(why, "id: A %d B %d", DepA_Root_id(a), DepB_Root_id(b)); return 0; }
    if (DepA_Root_c(a) != DepB_Root_c(b) || DepA_Root_c_is_present(a) != DepB_Root_c_is_present(b)) { sprintf(why, "c: A %lld B %lld", (long long)DepA_Root_c(a), (long long)DepB_Root_c(b)); return 0; }
    if (DepA_Root_z(a) != DepB_Root_z(b)) { sprintf(why, "z: A %d B %d", DepA_Root_z(a), DepB_Root_z(b)); return 0; }
    if (!DepA_Root_name(a) != !DepB_Root_name(b) || (DepA_Root_name(a) && strcmp(DepA_Root_name(a), DepB_Root_name(b)))) { sprintf(why, "name: A %s B %s", DepA_Root_name(a) ? DepA_Root_name(a) : "(null)", DepB_Root_name(b) ? DepB_Root_name(b) : "(null)"); return 0; }
    if (flatbuffers_int16_vec_len(DepA_Root_tail(a)) != flatbuffers_int16_vec_len(DepB_Root_tail(b))) { sprintf(why, "tail length: A %d B %d", (int)flatbuffers_int16_vec_len(DepA_Root_tail(a)), (int)flatbuffers_int16_vec_len(DepB_Root_tail(b))); return 0; }
    for (i = 0; i < flatbuffers_int16_vec_len(DepA_Root_tail(a)); ++i)
        if (flatbuffers_int16_vec_at(DepA_Root_tail(a), i) != flatbuffers_int16_vec_at(DepB_Root_tail(b), i)) { sprintf(why, "tail[%d] differs", (int)i); return 0; }
    return 1;
}

static int print_ok(int with_a, const void *buf, size_t n, char *why)
{
    flatcc_json_printer_t pr; char *json; size_t jlen = 0; int e;
    flatcc_json_printer_init_dynamic_buffer(&pr, 0);
    if (with_a) DepA_Root_print_json_as_root(&pr, buf, n, 0); else DepB_Root_print_json_as_root(&pr, buf, n, 0);
    json = flatcc_json_printer_finalize_dynamic_buffer(&pr, &jlen);
    e = flatcc_json_printer_get_error(&pr);
    flatcc_json_printer_clear(&pr);
    if (e || !json || jlen < 2) { sprintf(why, "%s's JSON printer fails: err=%d len=%d", with_a ? "A" : "B", e, (int)jlen); if (json) free(json); return 0; }
    free(json);
    return 1;
}

int main(void)
{
    flatcc_builder_t b, *B = &b; unsigned m; char why[400];
    flatcc_builder_init(B);
    for (m = 0; m < 2048; ++m) {
        size_t n; void *buf = build_a(B, m, &n); int ra, rb; DepB_Root_table_t t;
        if (!buf) { printf("A%u FAIL build\n", m); continue; }
        ra = DepA_Root_verify_as_root(buf, n); rb = DepB_Root_verify_as_root(buf, n);
        t = DepB_Root_as_root(buf);
        if (ra) printf("A%u FAIL A's own verifier rejects: %s\n", m, flatcc_verify_error_string(ra));
        else if (rb) printf("A%u FAIL a buffer built with A is rejected by B's verifier: %s\n", m, flatcc_verify_error_string(rb));
        else if (!same_shared(buf, why)) printf("A%u FAIL shared field read differently by B: %s\n", m, why);
        else if (DepB_Root_d(t) != 5 || DepB_Root_d_is_present(t)) printf("A%u FAIL new field d not at its default: %d\n", m, DepB_Root_d(t));
        else if (!print_ok(0, buf, n, why)) printf("A%u FAIL %s\n", m, why);
        else printf("A%u ok\n", m);
        flatcc_builder_aligned_free(buf);
    }
    for (m = 0; m < 64; ++m) {
        size_t n; void *buf = build_b(B, m, &n); int ra, rb; DepA_Root_table_t t;
        if (!buf) { printf("B%u FAIL build\n", m); continue; }
        ra = DepA_Root_verify_as_root(buf, n); rb = DepB_Root_verify_as_root(buf, n);
        t = DepA_Root_as_root(buf);
        if (rb) printf("B%u FAIL B's own verifier rejects: %s\n", m, flatcc_verify_error_string(rb));
        else if (ra) printf("B%u FAIL a buffer built with B is rejected by A's verifier: %s\n", m, flatcc_verify_error_string(ra));
        else if (!same_shared(buf, why)) printf("B%u FAIL shared field read differently by A: %s\n", m, why);
        else if (DepA_Root_old_s_is_present(t) || DepA_Root_u_type(t) != DepA_Any_NONE || DepA_Root_us_type(t) || DepA_Root_us(t) || DepA_Root_old_str(t) || DepA_Root_l(t))
            printf("B%u FAIL A sees a deprecated field as present in a buffer built by B\n", m);
        else if (!print_ok(1, buf, n, why)) printf("B%u FAIL %s\n", m, why);
        else printf("B%u ok\n", m);
        flatcc_builder_aligned_free(buf);
    }
    flatcc_builder_clear(B);
    return 0;
}
