/* C15 generated-code scenario: every way the generated API offers to put a nested buffer into a parent table.
 * For each nested field of each finished parent: placement inside the parent, no parent object inside the nested
 * range, and the bytes cut out to aligned memory verify and read back standalone.
 * Output: "ok <scenario> <field>" or "FAIL <finding-id> <description>". */
#include <stdio.h>
#include <stdlib.h>
#include <string.h>
#include <stdint.h>
#include "nest_builder.h"
#include "nest_reader.h"
#include "nest_verifier.h"

#undef ns
#define ns(x) FLATBUFFERS_WRAP_NAMESPACE(n, x)

static flatcc_builder_t builder, *B = &builder;

typedef struct { const uint8_t *buf; size_t size; } fin_t;

static int in_range(const void *p, const uint8_t *lo, size_t n) { return (const uint8_t *)p >= lo && (const uint8_t *)p < lo + n; }

/* kind: 0 Inner table (needs 8), 1 S16, 2 S8, 3 S3, 4 Outer */
static void check_nested(const char *sc, const char *field, fin_t f, flatbuffers_uint8_vec_t vec, int kind,
        long long a, long long b, const void *parent_obj, const char *parent_obj_name)
{
    static const size_t need[] = { 8, 16, 8, 1, 8 };
    size_t len, off; uint8_t *copy; int rc = 0; char id[96];
    if (!vec) { printf("FAIL %s-%s-absent nested field %s absent after %s\n", sc, field, field, sc); return; }
    len = flatbuffers_uint8_vec_len(vec);
    snprintf(id, sizeof id, "%s-%s", sc, field);
    if (!in_range(vec, f.buf, f.size) || (size_t)((const uint8_t *)vec - f.buf) + len > f.size) {
        printf("FAIL %s-range nested vector of %s leaves the parent buffer (len %zu)\n", id, field, len); return;
    }
    off = (size_t)((const uint8_t *)vec - f.buf);
    if (off % need[kind]) { printf("FAIL %s-align nested content of %s at parent offset %zu, needs alignment %zu\n", id, field, off, need[kind]); return; }
    if (parent_obj && in_range(parent_obj, (const uint8_t *)vec, len)) {
        printf("FAIL %s-overlap the nested vector of %s (offset %zu, length %zu) covers the parent's %s at offset %zu\n",
                id, field, off, len, parent_obj_name, (size_t)((const uint8_t *)parent_obj - f.buf));
        return;
    }
    copy = aligned_alloc(64, (len + 63) / 64 * 64 + 64);
    memset(copy, 0xa5, (len + 63) / 64 * 64 + 64);
    memcpy(copy, vec, len);
    switch (kind) {
    case 0: rc = ns(Inner_verify_as_root(copy, len));
        if (!rc) { ns(Inner_table_t) t = ns(Inner_as_root(copy)); if (ns(Inner_x(t)) != a || !ns(Inner_s(t)) || strcmp(ns(Inner_s(t)), "inner")) rc = -100; } break;
    case 1: rc = ns(S16_verify_as_root(copy, len));
        if (!rc) { ns(S16_struct_t) s = ns(S16_as_root(copy)); if (ns(S16_a(s)) != a || ns(S16_b(s)) != b) rc = -100; } break;
    case 2: rc = ns(S8_verify_as_root(copy, len));
        if (!rc) { ns(S8_struct_t) s = ns(S8_as_root(copy)); if (ns(S8_a(s)) != a) rc = -100; } break;
    case 3: rc = ns(S3_verify_as_root(copy, len));
        if (!rc) { ns(S3_struct_t) s = ns(S3_as_root(copy)); if (ns(S3_a(s)) != (uint8_t)a || ns(S3_c(s)) != (uint8_t)b) rc = -100; } break;
    default: rc = ns(Outer_verify_as_root(copy, len));
        if (!rc) { ns(Outer_table_t) t = ns(Outer_as_root(copy)); if (ns(Outer_y(t)) != a) rc = -100; } break;
    }
    if (rc == -100) printf("FAIL %s-values nested %s cut out of the parent reads back different values\n", id, field);
    else if (rc) printf("FAIL %s-verify nested %s cut out of the parent is rejected by its verifier: %s\n", id, field, flatcc_verify_error_string(rc));
    else printf("ok %s %s len=%zu off=%zu\n", sc, field, len, off);
    free(copy);
}

static fin_t finish(const char *sc, size_t min_align)
{
    fin_t f; size_t size; void *buf = flatcc_builder_finalize_aligned_buffer(B, &size); int rc;
    f.buf = buf; f.size = size;
    if (!buf) { printf("FAIL %s-finalize finalize failed\n", sc); f.size = 0; return f; }
    if (flatcc_builder_get_buffer_alignment(B) < min_align)
        printf("FAIL %s-parent-align the parent reports alignment %u, a nested buffer needs %zu\n", sc, (unsigned)flatcc_builder_get_buffer_alignment(B), min_align);
    if ((rc = ns(Outer_verify_as_root(buf, size))))
        printf("FAIL %s-parent-verify parent buffer rejected: %s\n", sc, flatcc_verify_error_string(rc));
    return f;
}

static void *standalone_inner(size_t *size, long long x)
{
    flatcc_builder_t b2; void *p;
    flatcc_builder_init(&b2);
    ns(Inner_start_as_root(&b2)); ns(Inner_x_add(&b2, x)); ns(Inner_s_create_str(&b2, "inner")); ns(Inner_end_as_root(&b2));
    p = flatcc_builder_finalize_aligned_buffer(&b2, size);
    flatcc_builder_clear(&b2);
    return p;
}

int main(void)
{
    fin_t f; ns(Outer_table_t) o; int depth;
    setvbuf(stdout, 0, _IOLBF, 0);
    flatcc_builder_init(B);

    /* A: built in place inside the open parent table; identical field sets in parent (t2) and child */
    flatcc_builder_reset(B);
    ns(Outer_start_as_root(B));
    ns(Outer_name_create_str(B, "parent-name"));
    ns(Outer_t2_start(B)); ns(Inner_x_add(B, 7)); ns(Inner_s_create_str(B, "inner")); ns(Outer_t2_end(B));
    ns(Outer_in_t_start_as_root(B)); ns(Inner_x_add(B, 7)); ns(Inner_s_create_str(B, "inner")); ns(Outer_in_t_end_as_root(B));
    { ns(S16_t) *s = ns(Outer_in_s16_start_as_root(B)); s->a = 11; s->b = -12; ns(Outer_in_s16_end_as_root(B)); }
    { ns(S3_t) *s = ns(Outer_in_s3_start_as_root(B)); s->a = 1; s->b = 2; s->c = 3; ns(Outer_in_s3_end_as_root(B)); }
    ns(Outer_y_add(B, 99));
    ns(Outer_end_as_root(B));
    f = finish("inplace", 16);
    if (f.size) {
        o = ns(Outer_as_root(f.buf));
        check_nested("inplace", "in_t", f, ns(Outer_in_t(o)), 0, 7, 0, ns(Outer_name(o)), "name string");
        check_nested("inplace", "in_s16", f, ns(Outer_in_s16(o)), 1, 11, -12, ns(Outer_name(o)), "name string");
        check_nested("inplace", "in_s3", f, ns(Outer_in_s3(o)), 3, 1, 3, ns(Outer_name(o)), "name string");
        if (ns(Outer_t2(o)) && in_range(ns(Outer_t2(o)), (const uint8_t *)ns(Outer_in_t(o)), flatbuffers_uint8_vec_len(ns(Outer_in_t(o)))))
            printf("FAIL inplace-t2-inside parent table t2 lies inside the nested buffer\n");
        flatcc_builder_aligned_free((void *)f.buf);
    }

    /* B: nested struct roots created from arguments, after other parent content exists */
    flatcc_builder_reset(B);
    ns(Outer_start_as_root(B));
    ns(Outer_name_create_str(B, "parent-name"));
    ns(Outer_in_s16_create_as_root(B, 21, 22));
    ns(Outer_in_s8_create_as_root(B, 23));
    ns(Outer_end_as_root(B));
    f = finish("create", 16);
    if (f.size) {
        o = ns(Outer_as_root(f.buf));
        check_nested("create", "in_s16", f, ns(Outer_in_s16(o)), 1, 21, 22, ns(Outer_name(o)), "name string");
        check_nested("create", "in_s8", f, ns(Outer_in_s8(o)), 2, 23, 0, ns(Outer_name(o)), "name string");
        flatcc_builder_aligned_free((void *)f.buf);
    }

    /* C: nested struct root cloned from an existing struct */
    flatcc_builder_reset(B);
    { ns(S16_t) src; src.a = 31; src.b = 32;
      ns(Outer_start_as_root(B));
      ns(Outer_name_create_str(B, "parent-name"));
      ns(Outer_in_s16_clone_as_root(B, &src));
      ns(Outer_end_as_root(B)); }
    f = finish("clone-struct", 16);
    if (f.size) {
        o = ns(Outer_as_root(f.buf));
        check_nested("clone-struct", "in_s16", f, ns(Outer_in_s16(o)), 1, 31, 32, ns(Outer_name(o)), "name string");
        flatcc_builder_aligned_free((void *)f.buf);
    }

    /* D: nested table root cloned from a table in another buffer */
    { size_t isz; void *ib = standalone_inner(&isz, 41);
      flatcc_builder_reset(B);
      ns(Outer_start_as_root(B));
      ns(Outer_name_create_str(B, "parent-name"));
      ns(Outer_in_t_clone_as_root(B, ns(Inner_as_root(ib))));
      ns(Outer_end_as_root(B));
      f = finish("clone-table", 8);
      if (f.size) {
          o = ns(Outer_as_root(f.buf));
          check_nested("clone-table", "in_t", f, ns(Outer_in_t(o)), 0, 41, 0, ns(Outer_name(o)), "name string");
          flatcc_builder_aligned_free((void *)f.buf);
      }
      /* E: existing bytes nested as they are */
      flatcc_builder_reset(B);
      ns(Outer_start_as_root(B));
      ns(Outer_name_create_str(B, "x"));
      ns(Outer_in_t_nest(B, ib, isz, 8));
      { struct { uint32_t off; uint32_t pad[3]; int64_t a, b; } sb = { 16, {0, 0, 0}, 51, 52 };
        ns(Outer_in_s16_nest(B, &sb, sizeof sb, 16)); }
      ns(Outer_end_as_root(B));
      f = finish("nest", 16);
      if (f.size) {
          o = ns(Outer_as_root(f.buf));
          check_nested("nest", "in_t", f, ns(Outer_in_t(o)), 0, 41, 0, ns(Outer_name(o)), "name string");
          check_nested("nest", "in_s16", f, ns(Outer_in_s16(o)), 1, 51, 52, ns(Outer_name(o)), "name string");
          flatcc_builder_aligned_free((void *)f.buf);
      }
      /* E2: the same with align 0 = "what the nested type needs": 8 for a table root, the struct's own alignment for a struct root */
      flatcc_builder_reset(B);
      ns(Outer_start_as_root(B));
      ns(Outer_name_create_str(B, "x"));
      ns(Outer_in_t_nest(B, ib, isz, 0));
      { struct { uint32_t off; uint32_t pad[3]; int64_t a, b; } sb = { 16, {0, 0, 0}, 51, 52 };
        ns(Outer_in_s16_nest(B, &sb, sizeof sb, 0)); }
      { struct { uint32_t off; uint32_t pad; int64_t a; } s8 = { 8, 0, 53 };
        ns(Outer_in_s8_nest(B, &s8, sizeof s8, 1)); }
      ns(Outer_end_as_root(B));
      f = finish("nest0", 16);
      if (f.size) {
          o = ns(Outer_as_root(f.buf));
          check_nested("nest0", "in_t", f, ns(Outer_in_t(o)), 0, 41, 0, ns(Outer_name(o)), "name string");
          check_nested("nest0", "in_s16", f, ns(Outer_in_s16(o)), 1, 51, 52, ns(Outer_name(o)), "name string");
          check_nested("nest0", "in_s8", f, ns(Outer_in_s8(o)), 2, 53, 0, ns(Outer_name(o)), "name string");
          flatcc_builder_aligned_free((void *)f.buf);
      }
      flatcc_builder_aligned_free(ib);
    }

    /* G: typed nested roots carry the type hash of the nested type as identifier */
    flatcc_builder_reset(B);
    ns(Outer_start_as_root(B));
    { ns(S16_t) *s = ns(Outer_in_s16_start_as_typed_root(B)); s->a = 61; s->b = 62; ns(Outer_in_s16_end_as_typed_root(B)); }
    ns(Outer_in_s8_create_as_typed_root(B, 63));
    ns(Outer_in_t_start_as_typed_root(B)); ns(Inner_x_add(B, 64)); ns(Inner_s_create_str(B, "inner")); ns(Outer_in_t_end_as_typed_root(B));
    ns(Outer_end_as_root(B));
    f = finish("typed", 16);
    if (f.size) {
        struct { const char *name; flatbuffers_uint8_vec_t v; flatbuffers_thash_t h; } chk[3]; int k;
        o = ns(Outer_as_root(f.buf));
        chk[0].name = "in_s16"; chk[0].v = ns(Outer_in_s16(o)); chk[0].h = ns(S16_type_hash);
        chk[1].name = "in_s8"; chk[1].v = ns(Outer_in_s8(o)); chk[1].h = ns(S8_type_hash);
        chk[2].name = "in_t"; chk[2].v = ns(Outer_in_t(o)); chk[2].h = ns(Inner_type_hash);
        for (k = 0; k < 3; ++k) {
            uint32_t id = 0;
            if (chk[k].v && flatbuffers_uint8_vec_len(chk[k].v) >= 8) memcpy(&id, (const uint8_t *)chk[k].v + 4, 4);
            if (!chk[k].v || id != chk[k].h) printf("FAIL typed-%s-identifier typed nested root %s has identifier %08x, type hash is %08x\n", chk[k].name, chk[k].name, (unsigned)id, (unsigned)chk[k].h);
            else printf("ok typed %s identifier\n", chk[k].name);
        }
        /* ... and the generated typed accessors of the parent read what the typed builder calls wrote */
        { ns(Inner_table_t) it = ns(Outer_in_t_as_typed_root(o)); ns(S16_struct_t) s16 = ns(Outer_in_s16_as_typed_root(o)); ns(S8_struct_t) s8 = ns(Outer_in_s8_as_typed_root(o));
          if (!it || ns(Inner_x(it)) != 64) printf("FAIL typed-in_t-accessor Outer_in_t_as_typed_root does not return the nested table built with in_t_start_as_typed_root\n"); else printf("ok typed in_t accessor\n");
          if (!s16 || ns(S16_a(s16)) != 61) printf("FAIL typed-in_s16-accessor Outer_in_s16_as_typed_root does not return the nested struct built with in_s16_start_as_typed_root\n"); else printf("ok typed in_s16 accessor\n");
          if (!s8 || ns(S8_a(s8)) != 63) printf("FAIL typed-in_s8-accessor Outer_in_s8_as_typed_root does not return the nested struct built with in_s8_create_as_typed_root\n"); else printf("ok typed in_s8 accessor\n"); }
        check_nested("typed", "in_s16", f, ns(Outer_in_s16(o)), 1, 61, 62, 0, 0);
        check_nested("typed", "in_s8", f, ns(Outer_in_s8(o)), 2, 63, 0, 0, 0);
        check_nested("typed", "in_t", f, ns(Outer_in_t(o)), 0, 64, 0, 0, 0);
        flatcc_builder_aligned_free((void *)f.buf);
    }

    /* F: nesting depth 8 through the recursive field, each level in place inside its open parent */
    flatcc_builder_reset(B);
    ns(Outer_start_as_root(B)); ns(Outer_y_add(B, 0));
    for (depth = 1; depth <= 8; ++depth) { ns(Outer_more_start_as_root(B)); ns(Outer_y_add(B, depth)); ns(Outer_name_create_str(B, "level")); }
    for (depth = 8; depth >= 1; --depth) ns(Outer_more_end_as_root(B));
    ns(Outer_end_as_root(B));
    f = finish("depth8", 8);
    if (f.size) {
        fin_t cur = f; uint8_t *copies[9]; int k = 0;
        for (depth = 1; depth <= 8 && cur.size; ++depth) {
            flatbuffers_uint8_vec_t v; size_t len;
            o = ns(Outer_as_root(cur.buf));
            v = ns(Outer_more(o));
            check_nested("depth8", "more", cur, v, 4, depth, 0, 0, 0);
            if (!v) break;
            len = flatbuffers_uint8_vec_len(v);
            copies[k] = aligned_alloc(64, (len + 63) / 64 * 64 + 64); memcpy(copies[k], v, len);
            cur.buf = copies[k]; cur.size = len; ++k;
        }
        if (depth != 9) printf("FAIL depth8-levels only %d nesting levels readable\n", depth - 1);
        while (k) free(copies[--k]);
        flatcc_builder_aligned_free((void *)f.buf);
    }
    flatcc_builder_clear(B);
    return 0;
}
