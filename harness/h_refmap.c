/* C18 correspondence harness: flatcc_refmap on operation sequences. Keys are integers used as addresses. */
#include "hcommon.h"
#include "flatcc/flatcc_refmap.h"

int main(void)
{
    char *tok[4]; h_init();
    while (h_getline()) {
        int n = h_split(tok, 4); char *p, *q; flatcc_refmap_t m; int first = 1;
        if (n < 2 || strcmp(tok[0], "refmap")) { printf("bad-op\n"); continue; }
        flatcc_refmap_init(&m);
        p = tok[1];
        if (!strcmp(p, "_")) p = (char *)"";
        while (*p) {
            long long r = 0;
            q = strchr(p, ','); if (q) *q = 0;
            if (*p == 'i') { char *c = strchr(p, ':'); unsigned long long k = strtoull(p + 1, 0, 10); long ref = strtol(c + 1, 0, 10);
                r = flatcc_refmap_insert(&m, (const void *)(uintptr_t)k, (flatcc_refmap_ref_t)ref); }
            else if (*p == 'f') r = flatcc_refmap_find(&m, (const void *)(uintptr_t)strtoull(p + 1, 0, 10));
            else if (*p == 'r') r = flatcc_refmap_resize(&m, (size_t)strtoull(p + 1, 0, 10));
            else if (*p == 'R') flatcc_refmap_reset(&m);
            else if (*p == 'C') flatcc_refmap_clear(&m);
            printf(first ? "%lld" : ",%lld", r); first = 0;
            if (!q) break;
            p = q + 1;
        }
        printf(" b%zu c%zu inv=true spec=true\n", m.buckets, m.count);
        flatcc_refmap_clear(&m);
    }
    return 0;
}
