/* C18 / C13 correspondence harness: flatcc_refmap on operation sequences. Keys are integers used as addresses.
 * An operation prefixed with X runs with an allocator that refuses every request (refmap.c is compiled with
 * FLATCC_CALLOC = h_calloc, FLATCC_FREE = h_free and NDEBUG: the out-of-memory path asserts otherwise). */
#include "hcommon.h"
#include "flatcc/flatcc_refmap.h"
#include "h_allocs.h"

static int refuse; static long live, refused;
void *h_calloc(size_t nm, size_t n) { void *p; if (refuse) { ++refused; return 0; } p = calloc(nm, n); if (p) ++live; return p; }
void *h_malloc(size_t n) { return h_calloc(1, n); }
void *h_realloc(void *p, size_t n) { if (refuse) { ++refused; return 0; } if (!p) ++live; return realloc(p, n); }
void h_free(void *p) { if (p) --live; free(p); }

int main(void)
{
    char *tok[4]; h_init();
    while (h_getline()) {
        int n = h_split(tok, 4); char *p, *q; flatcc_refmap_t m; int first = 1;
        if (n < 2 || strcmp(tok[0], "refmap")) { printf("bad-op\n"); continue; }
        flatcc_refmap_init(&m);
        live = 0;
        p = tok[1];
        if (!strcmp(p, "_")) p = (char *)"";
        while (*p) {
            long long r = 0;
            q = strchr(p, ','); if (q) *q = 0;
            refuse = 0;
            if (*p == 'X') { refuse = 1; ++p; }
            if (*p == 'i') { char *c = strchr(p, ':'); unsigned long long k = strtoull(p + 1, 0, 10); long ref = strtol(c + 1, 0, 10);
                r = flatcc_refmap_insert(&m, (const void *)(uintptr_t)k, (flatcc_refmap_ref_t)ref); }
            else if (*p == 'f') r = flatcc_refmap_find(&m, (const void *)(uintptr_t)strtoull(p + 1, 0, 10));
            else if (*p == 'r') r = flatcc_refmap_resize(&m, (size_t)strtoull(p + 1, 0, 10));
            else if (*p == 'R') flatcc_refmap_reset(&m);
            else if (*p == 'C') flatcc_refmap_clear(&m);
            refuse = 0;
            printf(first ? "%lld" : ",%lld", r); first = 0;
            if (!q) break;
            p = q + 1;
        }
        printf(" b%zu c%zu inv=true spec=true", m.buckets, m.count);
        flatcc_refmap_clear(&m);
        /* clear releases everything the map obtained from the allocator */
        printf(live ? " LEAK%ld\n" : "\n", live);
    }
    return 0;
}
