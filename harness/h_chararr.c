/* Correspondence harness for FlatccModel/CharArray.lean:
 *   chararr <N> <flags> <hex-text>   real flatcc_json_parser_char_array on an N byte destination
 *       flags: bit0 skip_array_overflow, bit1 reject_array_underflow; text: from the opening quote to the end of input
 *       -> "ok <hex of the N array bytes> <consumed-offset>" | "err overflow|underflow|other"
 *          | "err write-outside" (canary in front of the array changed) | "err segv" (store into the guard page)
 *   chararrp <hex-array>             real print_char_array (static: json_printer.c is #included) -> hex of the text
 *
 * Destination layout: [ 64 canary bytes 0xC5 ][ N array bytes, prefilled 0xEE ][ PROT_NONE page ]
 * Text: exact-length heap copy (ASan flags any read at or past `end`).
 * A call which returns without recording an error is printed as "ok"; array bytes the call did not store keep the
 * prefill 0xEE (this is how the "silent end" outcome of the model shows, see Err.silentEnd).
 */
#include <stdio.h>
#include <stdlib.h>
#include <string.h>
#include <stdint.h>
#include <signal.h>
#include <setjmp.h>
#include <unistd.h>
#include <sys/mman.h>

#include "flatcc/flatcc_json_parser.h"
#include "../src/runtime/json_printer.c"   /* resolved through -I <repo>/include */

#define CANARY 64
#define FILL 0xEE
#define CAN 0xC5

static sigjmp_buf jb;
static volatile sig_atomic_t armed = 0;
static uint8_t *guard_lo, *guard_hi;

static void on_segv(int sig, siginfo_t *si, void *uc)
{
    (void)uc;
    if (armed && (uint8_t *)si->si_addr >= guard_lo && (uint8_t *)si->si_addr < guard_hi) {
        armed = 0;
        siglongjmp(jb, 1);
    }
    fflush(stdout);
    fprintf(stderr, "[h_chararr] fatal signal %d at %p\n", sig, si->si_addr);
    _exit(70);
}

static int hexv(int c) { return c <= '9' ? c - '0' : (c | 0x20) - 'a' + 10; }
static size_t hexlen(const char *s) { return strcmp(s, "-") == 0 ? 0 : strlen(s) / 2; }
static void unhex(const char *s, uint8_t *out)
{
    size_t n = hexlen(s), i;
    for (i = 0; i < n; ++i) out[i] = (uint8_t)(hexv(s[2 * i]) * 16 + hexv(s[2 * i + 1]));
}
static void puthex(const uint8_t *p, size_t n)
{
    size_t i;
    if (n == 0) { putchar('-'); return; }
    for (i = 0; i < n; ++i) printf("%02x", p[i]);
}

int main(void)
{
    char *line = 0; size_t cap = 0; ssize_t len;
    size_t pg = (size_t)sysconf(_SC_PAGESIZE);
    uint8_t *map = mmap(0, 3 * pg, PROT_READ | PROT_WRITE, MAP_PRIVATE | MAP_ANONYMOUS, -1, 0);
    struct sigaction sa;

    if (map == MAP_FAILED) return 2;
    mprotect(map, pg, PROT_NONE);
    mprotect(map + 2 * pg, pg, PROT_NONE);
    guard_lo = map + 2 * pg; guard_hi = map + 3 * pg;
    memset(&sa, 0, sizeof(sa));
    sa.sa_sigaction = on_segv; sa.sa_flags = SA_SIGINFO | SA_NODEFER;
    sigaction(SIGSEGV, &sa, 0); sigaction(SIGBUS, &sa, 0);
    setvbuf(stdout, 0, _IOLBF, 0);

    while ((len = getline(&line, &cap, stdin)) >= 0) {
        char *tok[4]; int nt = 0; char *p = line;
        while (len > 0 && (line[len - 1] == '\n' || line[len - 1] == '\r')) line[--len] = 0;
        while (nt < 4) { tok[nt++] = p; p = strchr(p, ' '); if (!p) break; *p++ = 0; }
        alarm(30);
        if (nt == 4 && !strcmp(tok[0], "chararr")) {
            size_t N = (size_t)strtoul(tok[1], 0, 10);
            int fl = atoi(tok[2]);
            size_t tl = hexlen(tok[3]), i;
            char *text = malloc(tl ? tl : 1);
            const char *end = text + tl, *ret = 0;
            uint8_t *dst = guard_lo - N;              /* dst[N] is the first byte of the PROT_NONE page */
            uint8_t *can = dst - CANARY;
            flatcc_json_parser_t ctx;
            flatcc_json_parser_flags_t flags = 0;
            int bad = 0;

            if (N + CANARY > pg) { printf("bad-op\n"); free(text); continue; }
            unhex(tok[3], (uint8_t *)text);
            if (fl & 1) flags |= flatcc_json_parser_f_skip_array_overflow;
            if (fl & 2) flags |= flatcc_json_parser_f_reject_array_underflow;
            memset(can, CAN, CANARY);
            memset(dst, FILL, N);
            flatcc_json_parser_init(&ctx, 0, text, end, flags);
            if (sigsetjmp(jb, 1)) {
                printf("err segv\n");
                free(text);
                continue;
            }
            armed = 1;
            ret = flatcc_json_parser_char_array(&ctx, text, end, (char *)dst, N);
            armed = 0;
            for (i = 0; i < CANARY; ++i) if (can[i] != CAN) bad = 1;
            if (bad) printf("err write-outside\n");
            else if (ctx.error == flatcc_json_parser_error_array_overflow) printf("err overflow\n");
            else if (ctx.error == flatcc_json_parser_error_array_underflow) printf("err underflow\n");
            else if (ctx.error) printf("err other\n");
            else { printf("ok "); puthex(dst, N); printf(" %ld\n", (long)(ret - text)); }
            free(text);
        } else if (nt == 2 && !strcmp(tok[0], "chararrp")) {
            size_t n = hexlen(tok[1]), outn = 0;
            uint8_t *src = guard_lo - n;              /* the array ends at the guard page: no read behind it */
            flatcc_json_printer_t pc;
            void *out;
            unhex(tok[1], src);
            if (flatcc_json_printer_init_dynamic_buffer(&pc, 0)) { printf("err init\n"); continue; }
            if (sigsetjmp(jb, 1)) { printf("err segv\n"); continue; }
            armed = 1;
            print_char_array(&pc, (const char *)src, n);
            armed = 0;
            out = flatcc_json_printer_get_buffer(&pc, &outn);
            if (flatcc_json_printer_get_error(&pc)) printf("err print\n");
            else { puthex(out, outn); printf("\n"); }
            flatcc_json_printer_clear(&pc);
        } else {
            printf("bad-op\n");
        }
    }
    free(line);
    return 0;
}
